// Tier A (bit-precise, loop-free apart from fixed 3/4-iteration loops): contracts of the get_nearest_time* helpers.
// These are the callee contracts that the Tier B loop obligations of SincFixedIn/Out rely on.
use super::*;

fn dom(t: f64, factor: isize, fmin: isize) -> bool {
    t >= -1048576.0 && t <= 1048576.0 && factor >= fmin && factor <= 65536
}

// @ob name=SINC.get_nearest_times_4.contract props=C03,C06 tier=quick kind=complete fn=get_nearest_times_4 timeout=600
#[kani::proof]
#[kani::unwind(6)]
#[kani::solver(kissat)]
fn c03_nearest_times_4() {
    let t: f64 = kani::any();
    let factor: isize = kani::any();
    kani::assume(dom(t, factor, 2));
    let mut pts = [(0isize, 0isize); 4];
    get_nearest_times_4(t, factor, &mut pts);
    let fl = t.floor() as isize;
    let mut k = 0;
    while k < 4 {
        assert!(pts[k].0 >= fl - 1 && pts[k].0 <= fl + 1, "nearest_4: index within one of floor(t)");
        assert!(pts[k].1 >= 0 && pts[k].1 < factor, "nearest_4: 0 <= subindex < factor (for factor >= 2)");
        if t == t.floor() && factor >= 3 {
            assert!(pts[k].0 <= fl, "nearest_4: at an integral position no point lies past floor(t) (factor >= 3)");
        }
        k += 1;
    }
    kani::cover!(pts[0].0 == fl - 1);
    kani::cover!(pts[3].0 == fl + 1);
}

// @ob name=SINC.get_nearest_times_3.contract props=C03,C06 tier=quick kind=complete fn=get_nearest_times_3 timeout=600
#[kani::proof]
#[kani::unwind(6)]
#[kani::solver(kissat)]
fn c03_nearest_times_3() {
    let t: f64 = kani::any();
    let factor: isize = kani::any();
    kani::assume(dom(t, factor, 2));
    let mut pts = [(0isize, 0isize); 3];
    get_nearest_times_3(t, factor, &mut pts);
    let fl = t.floor() as isize;
    let mut k = 0;
    while k < 3 {
        assert!(pts[k].0 >= fl && pts[k].0 <= fl + 1, "nearest_3: index is floor(t) or floor(t)+1");
        assert!(pts[k].1 >= 0 && pts[k].1 < factor, "nearest_3: 0 <= subindex < factor (for factor >= 2)");
        if t == t.floor() && factor >= 3 {
            assert!(pts[k].0 <= fl, "nearest_3: at an integral position no point lies past floor(t) (factor >= 3)");
        }
        k += 1;
    }
    kani::cover!(pts[2].0 == fl + 1);
}

// @ob name=SINC.get_nearest_times_2.contract props=C03,C06 tier=quick kind=complete fn=get_nearest_times_2 timeout=600
#[kani::proof]
#[kani::unwind(6)]
#[kani::solver(kissat)]
fn c03_nearest_times_2() {
    let t: f64 = kani::any();
    let factor: isize = kani::any();
    kani::assume(dom(t, factor, 1));
    let mut pts = [(0isize, 0isize); 2];
    get_nearest_times_2(t, factor, &mut pts);
    let fl = t.floor() as isize;
    assert!(pts[0].0 == fl && pts[1].0 >= fl && pts[1].0 <= fl + 1, "nearest_2: index is floor(t) or floor(t)+1");
    assert!(pts[0].1 >= 0 && pts[0].1 < factor && pts[1].1 >= 0 && pts[1].1 < factor, "nearest_2: 0 <= subindex < factor");
    if t == t.floor() && factor >= 2 {
        assert!(pts[1].0 <= fl, "nearest_2: at an integral position no point lies past floor(t) (factor >= 2)");
    }
    kani::cover!(pts[1].0 == fl + 1);
}

// @ob name=SINC.get_nearest_time.contract props=C03,C06 tier=quick kind=complete fn=get_nearest_time timeout=600
#[kani::proof]
#[kani::unwind(6)]
#[kani::solver(kissat)]
fn c03_nearest_time() {
    let t: f64 = kani::any();
    let factor: isize = kani::any();
    kani::assume(dom(t, factor, 1));
    let (i, s) = get_nearest_time(t, factor);
    let fl = t.floor() as isize;
    assert!(i >= fl && i <= fl + 1, "nearest: index is floor(t) or floor(t)+1");
    assert!(s >= 0 && s < factor, "nearest: 0 <= subindex < factor");
    if t == t.floor() {
        assert!(i <= fl, "nearest: at an integral position the point is floor(t)");
    }
    kani::cover!(i == fl + 1);
}
