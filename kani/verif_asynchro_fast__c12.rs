// Tier A contracts for the ratio / chunk-size controls of FastFixedIn / FastFixedOut (C12).
// Child module of src/asynchro_fast.rs (injected into a snapshot only).
use super::*;
use crate::error::ResampleError;
use crate::Resampler;

/// Configuration domain of DESIGN.md section 3 (finite, positive, constructor-accepted), as a box
/// so that no division is needed to state it: original in [2^-10, 2^10], max in [1, 2^10], hence
/// 2^-20 <= original/max and original*max <= 2^20.
fn cfg_domain(orig: f64, max: f64) -> bool {
    orig >= 0.0009765625 && orig <= 1024.0 && max >= 1.0 && max <= 1024.0
}

fn any_fast_in(orig: f64, max: f64) -> FastFixedIn<f64> {
    FastFixedIn::<f64> {
        nbr_channels: 2,
        chunk_size: kani::any(),
        last_index: kani::any(),
        resample_ratio: kani::any(),
        resample_ratio_original: orig,
        target_ratio: kani::any(),
        max_relative_ratio: max,
        buffer: [[kani::any::<f64>(); 3].to_vec(), [kani::any::<f64>(); 3].to_vec()].to_vec(),
        interpolation: PolynomialDegree::Cubic,
        channel_mask: [kani::any::<bool>(), kani::any::<bool>()].to_vec(),
    }
}

fn any_fast_out(orig: f64, max: f64) -> FastFixedOut<f64> {
    FastFixedOut::<f64> {
        nbr_channels: 2,
        chunk_size: kani::any(),
        needed_input_size: kani::any(),
        last_index: kani::any(),
        current_buffer_fill: kani::any(),
        resample_ratio: kani::any(),
        resample_ratio_original: orig,
        target_ratio: kani::any(),
        max_relative_ratio: max,
        buffer: [[kani::any::<f64>(); 3].to_vec(), [kani::any::<f64>(); 3].to_vec()].to_vec(),
        interpolation: PolynomialDegree::Cubic,
        channel_mask: [kani::any::<bool>(), kani::any::<bool>()].to_vec(),
    }
}

/// Part of the representation invariant that the setters rely on (DESIGN.md section 3): the
/// carried position and the chunk size are in the range where the crate's own f32/f64 -> usize
/// arithmetic neither overflows nor produces NaN; ratios are inside the configured range
/// (one ulp of slack, see the relative setter).
fn pre_out(r: &FastFixedOut<f64>) -> bool {
    let lo = r.resample_ratio_original / r.max_relative_ratio * 0.999;
    let hi = r.resample_ratio_original * r.max_relative_ratio * 1.001;
    r.chunk_size >= 1
        && r.chunk_size <= 16777216
        && r.last_index >= -16777216.0
        && r.last_index <= 16777216.0
        && r.resample_ratio >= lo
        && r.resample_ratio <= hi
        && r.target_ratio >= lo
        && r.target_ratio <= hi
}

/// Snapshot of every field that a setter could touch (bit patterns for floats).
#[derive(PartialEq, Eq, Clone, Copy)]
struct SnapIn {
    nbr_channels: usize,
    chunk_size: usize,
    last_index: u64,
    ratio: u64,
    orig: u64,
    target: u64,
    max: u64,
    b00: u64,
    b01: u64,
    b02: u64,
    b10: u64,
    b11: u64,
    b12: u64,
    m0: bool,
    m1: bool,
    blen: usize,
}

fn snap_in(r: &FastFixedIn<f64>) -> SnapIn {
    SnapIn {
        nbr_channels: r.nbr_channels,
        chunk_size: r.chunk_size,
        last_index: r.last_index.to_bits(),
        ratio: r.resample_ratio.to_bits(),
        orig: r.resample_ratio_original.to_bits(),
        target: r.target_ratio.to_bits(),
        max: r.max_relative_ratio.to_bits(),
        b00: r.buffer[0][0].to_bits(),
        b01: r.buffer[0][1].to_bits(),
        b02: r.buffer[0][2].to_bits(),
        b10: r.buffer[1][0].to_bits(),
        b11: r.buffer[1][1].to_bits(),
        b12: r.buffer[1][2].to_bits(),
        m0: r.channel_mask[0],
        m1: r.channel_mask[1],
        blen: r.buffer.len() + r.buffer[0].len() + r.buffer[1].len() + r.channel_mask.len(),
    }
}

#[derive(PartialEq, Eq, Clone, Copy)]
struct SnapOut {
    nbr_channels: usize,
    chunk_size: usize,
    needed: usize,
    fill: usize,
    last_index: u64,
    ratio: u64,
    orig: u64,
    target: u64,
    max: u64,
    b00: u64,
    b01: u64,
    b02: u64,
    b10: u64,
    b11: u64,
    b12: u64,
    m0: bool,
    m1: bool,
    blen: usize,
}

fn snap_out(r: &FastFixedOut<f64>) -> SnapOut {
    SnapOut {
        nbr_channels: r.nbr_channels,
        chunk_size: r.chunk_size,
        needed: r.needed_input_size,
        fill: r.current_buffer_fill,
        last_index: r.last_index.to_bits(),
        ratio: r.resample_ratio.to_bits(),
        orig: r.resample_ratio_original.to_bits(),
        target: r.target_ratio.to_bits(),
        max: r.max_relative_ratio.to_bits(),
        b00: r.buffer[0][0].to_bits(),
        b01: r.buffer[0][1].to_bits(),
        b02: r.buffer[0][2].to_bits(),
        b10: r.buffer[1][0].to_bits(),
        b11: r.buffer[1][1].to_bits(),
        b12: r.buffer[1][2].to_bits(),
        m0: r.channel_mask[0],
        m1: r.channel_mask[1],
        blen: r.buffer.len() + r.buffer[0].len() + r.buffer[1].len() + r.channel_mask.len(),
    }
}

fn is_ratio_err(res: &Result<(), ResampleError>, provided: f64, orig: f64, max: f64) -> bool {
    match res {
        Err(ResampleError::RatioOutOfBounds { provided: p, original: o, max_relative_ratio: m }) => {
            p.to_bits() == provided.to_bits() && o.to_bits() == orig.to_bits() && m.to_bits() == max.to_bits()
        }
        _ => false,
    }
}

// ---------------------------------------------------------------- FastFixedIn

// @ob name=C12.FastFixedIn.set_resample_ratio.effect props=C12,C03,C06 tier=quick kind=complete fn=FastFixedIn::set_resample_ratio,FastFixedIn::update_ratio
#[kani::proof]
#[kani::unwind(4)]
#[kani::solver(kissat)]
fn c12_fastin_set_ratio_effect() {
    let orig: f64 = kani::any();
    let max: f64 = kani::any();
    kani::assume(cfg_domain(orig, max));
    let mut r = any_fast_in(orig, max);
    let old = snap_in(&r);
    let new: f64 = kani::any();
    let ramp: bool = kani::any();
    let res = r.set_resample_ratio(new, ramp);
    let now = snap_in(&r);
    if res.is_ok() {
        assert!(new.is_finite() && new > 0.0, "C12: accepted ratio is finite and positive");
        assert!(now.target == new.to_bits(), "C12/C06: accepted ratio becomes the target");
        assert!(now.ratio == if ramp { old.ratio } else { new.to_bits() }, "C06: non-ramped change takes effect at once, ramped change keeps the current ratio");
        let mut exp = old;
        exp.target = now.target;
        exp.ratio = now.ratio;
        assert!(exp == now, "C12: accepted call changes nothing but the two ratios");
    } else {
        assert!(is_ratio_err(&res, new, orig, max), "C12: rejection is RatioOutOfBounds carrying provided, original, max");
        assert!(old == now, "C12: rejected call changes nothing");
    }
    kani::cover!(res.is_ok() && ramp, "accepted ramp reachable");
    kani::cover!(res.is_ok() && !ramp, "accepted step reachable");
    kani::cover!(res.is_err(), "rejection reachable");
    std::mem::forget(r);
}

const PAIRS: [(f64, f64); 6] = [
    (0.0137, 3.2489999999999997),
    (1.0, 1.0),
    (7.980818, 5.386243),
    (48000.0 / 44100.0, 1.1),
    (0.3333333333333333, 10.0),
    (2.0, 256.0),
];

// @ob name=C12.FastFixedIn.set_resample_ratio.accept_iff_in_range props=C12 tier=quick kind=bounded fn=FastFixedIn::set_resample_ratio bound="full f64 domain of the argument (incl. NaN, infinities, subnormals, the exact bounds and their neighbours); (original,max) from 6 concrete pairs"
#[kani::proof]
#[kani::unwind(4)]
#[kani::solver(kissat)]
fn c12_fastin_set_ratio_iff() {
    let i: usize = kani::any();
    kani::assume(i < PAIRS.len());
    let (orig, max) = PAIRS[i];
    let mut r = any_fast_in(orig, max);
    let new: f64 = kani::any();
    let res = r.set_resample_ratio(new, kani::any());
    let expect = new >= orig / max && new <= orig * max;
    assert!(res.is_ok() == expect, "C12: Ok exactly when original/max <= r <= original*max");
    kani::cover!(res.is_ok() && new == orig / max, "lower bound accepted");
    kani::cover!(res.is_ok() && new == orig * max, "upper bound accepted");
    std::mem::forget(r);
}

// @ob name=C12.FastFixedIn.set_resample_ratio_relative.effect props=C12,C06 tier=quick kind=complete fn=FastFixedIn::set_resample_ratio_relative,FastFixedIn::update_ratio
#[kani::proof]
#[kani::unwind(4)]
#[kani::solver(kissat)]
fn c12_fastin_set_relative_effect() {
    let orig: f64 = kani::any();
    let max: f64 = kani::any();
    kani::assume(cfg_domain(orig, max));
    let mut r = any_fast_in(orig, max);
    let old = snap_in(&r);
    let x: f64 = kani::any();
    let ramp: bool = kani::any();
    let res = r.set_resample_ratio_relative(x, ramp);
    let now = snap_in(&r);
    if res.is_ok() {
        assert!(x.is_finite() && x > 0.0, "C12: accepted relative ratio is finite and positive");
        let mut exp = old;
        exp.target = now.target;
        exp.ratio = if ramp { old.ratio } else { now.target };
        assert!(exp == now, "C12: accepted relative call changes only the ratios, like set_resample_ratio");
    } else {
        assert!(matches!(res, Err(ResampleError::RatioOutOfBounds { .. })), "C12: rejection is RatioOutOfBounds");
        assert!(old == now, "C12: rejected call changes nothing");
    }
    kani::cover!(res.is_ok(), "acceptance reachable");
    kani::cover!(res.is_err(), "rejection reachable");
    std::mem::forget(r);
}

// @ob name=C12.FastFixedIn.set_resample_ratio_relative.accept_iff_in_range props=C12 tier=quick kind=bounded fn=FastFixedIn::set_resample_ratio_relative bound="full f64 domain of the argument; (original,max) from 6 concrete pairs"
#[kani::proof]
#[kani::unwind(4)]
#[kani::solver(kissat)]
fn c12_fastin_set_relative_iff() {
    let i: usize = kani::any();
    kani::assume(i < PAIRS.len());
    let (orig, max) = PAIRS[i];
    let mut r = any_fast_in(orig, max);
    let x: f64 = kani::any();
    let res = r.set_resample_ratio_relative(x, false);
    let expect = x >= 1.0 / max && x <= max;
    assert!(res.is_ok() == expect, "C12: relative Ok exactly when 1/max <= x <= max");
    kani::cover!(res.is_ok() && x == 1.0 / max, "lower bound accepted");
    kani::cover!(res.is_ok() && x == max, "upper bound accepted");
    std::mem::forget(r);
}

// @ob name=C12.FastFixedIn.set_chunk_size.not_adjustable props=C12 tier=quick kind=complete fn=Resampler::set_chunk_size(default)
#[kani::proof]
#[kani::unwind(4)]
fn c12_fastin_chunk_not_adjustable() {
    let mut r = any_fast_in(kani::any(), kani::any());
    let old = snap_in(&r);
    let res = r.set_chunk_size(kani::any());
    assert!(matches!(res, Err(ResampleError::ChunkSizeNotAdjustable)), "C12: FastFixedIn answers ChunkSizeNotAdjustable");
    assert!(old == snap_in(&r), "C12: and changes nothing");
    kani::cover!(true);
    std::mem::forget(r);
}

// ---------------------------------------------------------------- FastFixedOut

// @ob name=C12.FastFixedOut.set_resample_ratio.effect props=C12,C03,C06 tier=quick kind=complete fn=FastFixedOut::set_resample_ratio,FastFixedOut::update_ratio
#[kani::proof]
#[kani::unwind(4)]
#[kani::solver(kissat)]
fn c12_fastout_set_ratio_effect() {
    let orig: f64 = kani::any();
    let max: f64 = kani::any();
    kani::assume(cfg_domain(orig, max));
    let mut r = any_fast_out(orig, max);
    kani::assume(pre_out(&r));
    let old = snap_out(&r);
    let new: f64 = kani::any();
    let ramp: bool = kani::any();
    let res = r.set_resample_ratio(new, ramp);
    let now = snap_out(&r);
    if res.is_ok() {
        assert!(new.is_finite() && new > 0.0, "C12: accepted ratio is finite and positive");
        assert!(now.target == new.to_bits(), "C12/C06: accepted ratio becomes the target");
        assert!(now.ratio == if ramp { old.ratio } else { new.to_bits() }, "C06: non-ramped change takes effect at once, ramped change keeps the current ratio");
        let mut exp = old;
        exp.target = now.target;
        exp.ratio = now.ratio;
        exp.needed = now.needed;
        assert!(exp == now, "C12: accepted call changes nothing but the ratios and the advertised input need");
        assert!(now.needed >= 8 && now.needed <= (1usize << 45), "C03: advertised input need is not a saturated cast");
    } else {
        assert!(is_ratio_err(&res, new, orig, max), "C12: rejection is RatioOutOfBounds carrying provided, original, max");
        assert!(old == now, "C12: rejected call changes nothing");
    }
    kani::cover!(res.is_ok() && ramp, "accepted ramp reachable");
    kani::cover!(res.is_ok() && !ramp, "accepted step reachable");
    kani::cover!(res.is_err(), "rejection reachable");
    std::mem::forget(r);
}

// @ob name=C12.FastFixedOut.set_resample_ratio.accept_iff_in_range props=C12 tier=quick kind=bounded fn=FastFixedOut::set_resample_ratio bound="full f64 domain of the argument; (original,max) from 6 concrete pairs"
#[kani::proof]
#[kani::unwind(4)]
#[kani::solver(kissat)]
fn c12_fastout_set_ratio_iff() {
    let i: usize = kani::any();
    kani::assume(i < PAIRS.len());
    let (orig, max) = PAIRS[i];
    let mut r = any_fast_out(orig, max);
    kani::assume(pre_out(&r));
    let new: f64 = kani::any();
    let res = r.set_resample_ratio(new, kani::any());
    let expect = new >= orig / max && new <= orig * max;
    assert!(res.is_ok() == expect, "C12: Ok exactly when original/max <= r <= original*max");
    kani::cover!(res.is_ok() && new == orig / max, "lower bound accepted");
    kani::cover!(res.is_ok() && new == orig * max, "upper bound accepted");
    std::mem::forget(r);
}

// @ob name=C12.FastFixedOut.set_resample_ratio_relative.effect props=C12,C06 tier=quick kind=complete fn=FastFixedOut::set_resample_ratio_relative,FastFixedOut::update_ratio
#[kani::proof]
#[kani::unwind(4)]
#[kani::solver(kissat)]
fn c12_fastout_set_relative_effect() {
    let orig: f64 = kani::any();
    let max: f64 = kani::any();
    kani::assume(cfg_domain(orig, max));
    let mut r = any_fast_out(orig, max);
    kani::assume(pre_out(&r));
    let old = snap_out(&r);
    let x: f64 = kani::any();
    let ramp: bool = kani::any();
    let res = r.set_resample_ratio_relative(x, ramp);
    let now = snap_out(&r);
    if res.is_ok() {
        assert!(x.is_finite() && x > 0.0, "C12: accepted relative ratio is finite and positive");
        let mut exp = old;
        exp.target = now.target;
        exp.ratio = if ramp { old.ratio } else { now.target };
        exp.needed = now.needed;
        assert!(exp == now, "C12: accepted relative call changes only the ratios and the input need");
    } else {
        assert!(matches!(res, Err(ResampleError::RatioOutOfBounds { .. })), "C12: rejection is RatioOutOfBounds");
        assert!(old == now, "C12: rejected call changes nothing");
    }
    kani::cover!(res.is_ok(), "acceptance reachable");
    kani::cover!(res.is_err(), "rejection reachable");
    std::mem::forget(r);
}

// @ob name=C12.FastFixedOut.set_resample_ratio_relative.accept_iff_in_range props=C12 tier=quick kind=bounded fn=FastFixedOut::set_resample_ratio_relative bound="full f64 domain of the argument; (original,max) from 6 concrete pairs"
#[kani::proof]
#[kani::unwind(4)]
#[kani::solver(kissat)]
fn c12_fastout_set_relative_iff() {
    let i: usize = kani::any();
    kani::assume(i < PAIRS.len());
    let (orig, max) = PAIRS[i];
    let mut r = any_fast_out(orig, max);
    kani::assume(pre_out(&r));
    let x: f64 = kani::any();
    let res = r.set_resample_ratio_relative(x, false);
    let expect = x >= 1.0 / max && x <= max;
    assert!(res.is_ok() == expect, "C12: relative Ok exactly when 1/max <= x <= max");
    kani::cover!(res.is_ok() && x == 1.0 / max, "lower bound accepted");
    kani::cover!(res.is_ok() && x == max, "upper bound accepted");
    std::mem::forget(r);
}

// @ob name=C12.FastFixedOut.set_chunk_size.not_adjustable props=C12 tier=quick kind=complete fn=Resampler::set_chunk_size(default)
#[kani::proof]
#[kani::unwind(4)]
fn c12_fastout_chunk_not_adjustable() {
    let mut r = any_fast_out(kani::any(), kani::any());
    let old = snap_out(&r);
    let res = r.set_chunk_size(kani::any());
    assert!(matches!(res, Err(ResampleError::ChunkSizeNotAdjustable)), "C12: FastFixedOut answers ChunkSizeNotAdjustable");
    assert!(old == snap_out(&r), "C12: and changes nothing");
    kani::cover!(true);
    std::mem::forget(r);
}

// @ob name=C12.FastFixedIn.set_resample_ratio_relative.value props=C12 tier=quick kind=bounded fn=FastFixedIn::set_resample_ratio_relative bound="(original,max) from 6 concrete pairs, x from 7 concrete values per pair (both bounds, their neighbours, 1.0 and two interior points)"
#[kani::proof]
#[kani::unwind(4)]
#[kani::solver(kissat)]
fn c12_fastin_set_relative_value() {
    let i: usize = kani::any();
    kani::assume(i < PAIRS.len());
    let (orig, max) = PAIRS[i];
    let lo = 1.0 / max;
    let xs: [f64; 7] = [lo, max, f64::from_bits(lo.to_bits() + 1), f64::from_bits(max.to_bits() - 1), 1.0, 0.5 * (lo + 1.0), 0.5 * (1.0 + max)];
    let j: usize = kani::any();
    kani::assume(j < 7);
    let x = xs[j];
    let mut r = any_fast_in(orig, max);
    
    let ramp: bool = kani::any();
    let old_ratio = r.resample_ratio.to_bits();
    let res = r.set_resample_ratio_relative(x, ramp);
    assert!(res.is_ok() == (x >= lo && x <= max), "C12: relative ratio accepted exactly when in range");
    if res.is_ok() {
        assert!(r.target_ratio.to_bits() == (orig * x).to_bits(), "C12: then behaves as set_resample_ratio(original*x): target");
        assert!(r.resample_ratio.to_bits() == if ramp { old_ratio } else { (orig * x).to_bits() }, "C12: then behaves as set_resample_ratio(original*x): current");
    }
    kani::cover!(j == 0 && i == 0, "lower bound of the rounding-sensitive pair reachable");
    std::mem::forget(r);
}

// @ob name=C12.FastFixedOut.set_resample_ratio_relative.value props=C12 tier=quick kind=bounded fn=FastFixedOut::set_resample_ratio_relative bound="(original,max) from 6 concrete pairs, x from 7 concrete values per pair (both bounds, their neighbours, 1.0 and two interior points)"
#[kani::proof]
#[kani::unwind(4)]
#[kani::solver(kissat)]
fn c12_fastout_set_relative_value() {
    let i: usize = kani::any();
    kani::assume(i < PAIRS.len());
    let (orig, max) = PAIRS[i];
    let lo = 1.0 / max;
    let xs: [f64; 7] = [lo, max, f64::from_bits(lo.to_bits() + 1), f64::from_bits(max.to_bits() - 1), 1.0, 0.5 * (lo + 1.0), 0.5 * (1.0 + max)];
    let j: usize = kani::any();
    kani::assume(j < 7);
    let x = xs[j];
    let mut r = any_fast_out(orig, max);
    kani::assume(pre_out(&r));
    let ramp: bool = kani::any();
    let old_ratio = r.resample_ratio.to_bits();
    let res = r.set_resample_ratio_relative(x, ramp);
    assert!(res.is_ok() == (x >= lo && x <= max), "C12: relative ratio accepted exactly when in range");
    if res.is_ok() {
        assert!(r.target_ratio.to_bits() == (orig * x).to_bits(), "C12: then behaves as set_resample_ratio(original*x): target");
        assert!(r.resample_ratio.to_bits() == if ramp { old_ratio } else { (orig * x).to_bits() }, "C12: then behaves as set_resample_ratio(original*x): current");
    }
    kani::cover!(j == 0 && i == 0, "lower bound of the rounding-sensitive pair reachable");
    std::mem::forget(r);
}
