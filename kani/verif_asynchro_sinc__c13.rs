// Tier A: contract of validate_ratios (constructor argument validation, C13).
use super::*;
use crate::error::ResamplerConstructionError;

// @ob name=C13.asynchro_sinc.validate_ratios.contract props=C13 tier=quick kind=complete fn=asynchro_sinc::validate_ratios
#[kani::proof]
#[kani::unwind(2)]
fn c13_asynchro_sinc_validate_ratios() {
    let r: f64 = kani::any();
    let m: f64 = kani::any();
    let res = validate_ratios(r, m);
    if r <= 0.0 || m < 1.0 {
        match res {
            Err(ResamplerConstructionError::InvalidRatio(x)) => assert!(r <= 0.0 && x.to_bits() == r.to_bits(), "C13: InvalidRatio only for a non-positive ratio, carrying it"),
            Err(ResamplerConstructionError::InvalidRelativeRatio(x)) => assert!(m < 1.0 && x.to_bits() == m.to_bits(), "C13: InvalidRelativeRatio only for max < 1, carrying it"),
            _ => assert!(false, "C13: non-positive ratio or max relative ratio < 1 is rejected with the documented error"),
        }
    }
    if r > 0.0 && m >= 1.0 {
        assert!(res.is_ok(), "C13: valid ratios are accepted");
    }
    kani::cover!(res.is_ok());
    kani::cover!(matches!(res, Err(ResamplerConstructionError::InvalidRatio(_))));
    kani::cover!(matches!(res, Err(ResamplerConstructionError::InvalidRelativeRatio(_))));
}
