// Tier A: the default methods of `Resampler` (process, process_partial_into_buffer, process_partial) and the
// VecResampler forwarding impl, verified against an *abstract* core: a harness-defined implementor whose
// required methods are nondeterministic but recorded. Whatever the default methods do for this mock they do for
// every implementation (they are generic code over the trait), so these are contracts for all seven types (C16).
use crate::error::{ResampleError, ResampleResult};
use crate::{Resampler, VecResampler};

const MAXC: usize = 2;

#[derive(Clone, Copy)]
struct Seen {
    calls: usize,
    n_in: usize,
    n_out: usize,
    in_len: [usize; MAXC],
    out_len: [usize; MAXC],
    mask_some: bool,
    mask_len: usize,
    mask: [bool; 3],
    // one probed input element and one probed (pre-call) output element per channel
    in_probe: [f64; MAXC],
    out_probe_before: [f64; MAXC],
    out_written: [f64; MAXC],
    in_ptr: usize,
}

struct Mock {
    chans: usize,
    next_in: usize,
    next_out: usize,
    max_in: usize,
    max_out: usize,
    delay: usize,
    ret_ok: bool,
    ret_in: usize,
    ret_out: usize,
    probe_idx: usize,
    seen: Seen,
    other_calls: usize,
    last_ratio_bits: u64,
    last_ramp: bool,
}

impl Resampler<f64> for Mock {
    fn process_into_buffer<Vin: AsRef<[f64]>, Vout: AsMut<[f64]>>(
        &mut self,
        wave_in: &[Vin],
        wave_out: &mut [Vout],
        active_channels_mask: Option<&[bool]>,
    ) -> ResampleResult<(usize, usize)> {
        self.seen.calls += 1;
        self.seen.n_in = wave_in.len();
        self.seen.n_out = wave_out.len();
        self.seen.in_ptr = wave_in.as_ptr() as usize;
        let mut c = 0;
        while c < MAXC {
            if c < wave_in.len() {
                let s = wave_in[c].as_ref();
                self.seen.in_len[c] = s.len();
                if self.probe_idx < s.len() {
                    self.seen.in_probe[c] = s[self.probe_idx];
                }
            }
            if c < wave_out.len() {
                let s = wave_out[c].as_mut();
                self.seen.out_len[c] = s.len();
                if self.probe_idx < s.len() {
                    self.seen.out_probe_before[c] = s[self.probe_idx];
                    let v: f64 = kani::any();
                    s[self.probe_idx] = v;
                    self.seen.out_written[c] = v;
                }
            }
            c += 1;
        }
        if let Some(m) = active_channels_mask {
            self.seen.mask_some = true;
            self.seen.mask_len = m.len();
            let mut k = 0;
            while k < 3 {
                if k < m.len() {
                    self.seen.mask[k] = m[k];
                }
                k += 1;
            }
        } else {
            self.seen.mask_some = false;
        }
        if self.ret_ok {
            Ok((self.ret_in, self.ret_out))
        } else {
            Err(ResampleError::SyncNotAdjustable)
        }
    }
    fn input_frames_max(&self) -> usize {
        self.max_in
    }
    fn input_frames_next(&self) -> usize {
        self.next_in
    }
    fn nbr_channels(&self) -> usize {
        self.chans
    }
    fn output_frames_max(&self) -> usize {
        self.max_out
    }
    fn output_frames_next(&self) -> usize {
        self.next_out
    }
    fn output_delay(&self) -> usize {
        self.delay
    }
    fn set_resample_ratio(&mut self, new_ratio: f64, ramp: bool) -> ResampleResult<()> {
        self.other_calls += 1;
        self.last_ratio_bits = new_ratio.to_bits();
        self.last_ramp = ramp;
        Ok(())
    }
    fn set_resample_ratio_relative(&mut self, rel_ratio: f64, ramp: bool) -> ResampleResult<()> {
        self.other_calls += 100;
        self.last_ratio_bits = rel_ratio.to_bits();
        self.last_ramp = ramp;
        Err(ResampleError::SyncNotAdjustable)
    }
    fn reset(&mut self) {
        self.other_calls += 10000;
    }
}

fn any_mock(chans: usize, next_in: usize, next_out: usize) -> Mock {
    let m = Mock {
        chans,
        next_in,
        next_out,
        max_in: kani::any(),
        max_out: kani::any(),
        delay: kani::any(),
        ret_ok: kani::any(),
        ret_in: kani::any(),
        ret_out: kani::any(),
        probe_idx: kani::any(),
        seen: Seen {
            calls: 0,
            n_in: 0,
            n_out: 0,
            in_len: [0; MAXC],
            out_len: [0; MAXC],
            mask_some: false,
            mask_len: 0,
            mask: [false; 3],
            in_probe: [0.0; MAXC],
            out_probe_before: [1.0; MAXC],
            out_written: [0.0; MAXC],
            in_ptr: 0,
        },
        other_calls: 0,
        last_ratio_bits: 0,
        last_ramp: false,
    };
    kani::assume(m.probe_idx < 8);
    m
}

/// Two input channels of *concrete* lengths (symbolic-length heap objects make CBMC's array
/// post-processing explode: measured > 15 min / > 16 GB).
fn input2(l0: usize, l1: usize, v: f64) -> [Vec<f64>; 2] {
    fn mk(l: usize, v: f64) -> Vec<f64> {
        match l {
            0 => Vec::new(),
            1 => [v; 1].to_vec(),
            2 => [v; 2].to_vec(),
            3 => [v; 3].to_vec(),
            4 => [v; 4].to_vec(),
            _ => [v; 5].to_vec(),
        }
    }
    [mk(l0, v), mk(l1, v)]
}

fn active(mask: Option<&[bool]>, c: usize) -> bool {
    match mask {
        None => true,
        Some(m) => {
            if c < m.len() {
                m[c]
            } else {
                true
            }
        }
    }
}

fn c16_process_contract(chans: usize, next_in: usize, next_out: usize, l0: usize, l1: usize, n_in: usize) {
    let mut m = any_mock(chans, next_in, next_out);
    let x: f64 = kani::any();
    let store = input2(l0, l1, x);
    let wave_in = &store[..n_in];
    let mask_store: [bool; 3] = kani::any();
    let mask_len: usize = kani::any();
    kani::assume(mask_len <= 3);
    let use_mask: bool = kani::any();
    let mask: Option<&[bool]> = if use_mask { Some(&mask_store[..mask_len]) } else { None };

    let res = Resampler::process(&mut m, wave_in, mask);

    kani::cover!(m.ret_ok && use_mask && mask_len == m.chans, "Ok call with a well-formed mask reachable");
    kani::cover!(!m.ret_ok, "Err call reachable");
    assert!(m.seen.calls == 1, "C16: process calls the core exactly once");
    assert!(m.seen.n_in == n_in && m.seen.in_ptr == wave_in.as_ptr() as usize, "C16: process forwards the input slice unchanged");
    assert!(m.seen.mask_some == use_mask && (!use_mask || m.seen.mask_len == mask_len), "C16: process forwards the mask unchanged");
    if use_mask {
        let k: usize = kani::any();
        kani::assume(k < mask_len);
        assert!(m.seen.mask[k] == mask_store[k], "C16: process forwards the mask contents unchanged");
    }
    assert!(m.seen.n_out == m.chans, "C16: process hands the core one output vector per channel");
    let c: usize = kani::any();
    kani::assume(c < m.chans);
    if active(mask, c) {
        assert!(m.seen.out_len[c] == m.next_out, "C16: active channel gets output_frames_next() frames");
        if m.probe_idx < m.next_out {
            assert!(m.seen.out_probe_before[c] == 0.0, "C16: output is zero-initialised");
        }
    } else {
        assert!(m.seen.out_len[c] == 0, "C16: masked channel gets an empty vector");
    }
    match res {
        Ok(v) => {
            assert!(m.ret_ok, "C16: Ok only if the core returned Ok");
            assert!(v.len() == m.chans, "C16: one vector per channel is returned");
            let want = if m.seen.out_len[c] < m.ret_out { m.seen.out_len[c] } else { m.ret_out };
            assert!(v[c].len() == want, "C16/C04: each channel is truncated to the written count, nothing dropped");
            if m.probe_idx < v[c].len() {
                assert!(v[c][m.probe_idx].to_bits() == m.seen.out_written[c].to_bits(), "C16: returned frames are the frames the core wrote");
            }
            std::mem::forget(v);
        }
        Err(e) => {
            assert!(!m.ret_ok && matches!(e, ResampleError::SyncNotAdjustable), "C16: the core's error is propagated unchanged");
        }
    }
    std::mem::forget(store);
}

fn c16_process_partial_into_buffer_contract(chans: usize, next_in: usize, next_out: usize, l0: usize, l1: usize, n_in: usize) {
    let mut m = any_mock(chans, next_in, next_out);
    let x: f64 = kani::any();
    kani::assume(x == x);
    let store = input2(l0, l1, x);
    let lens = [l0, l1];
    let some_in: bool = kani::any();
    let wave_in: Option<&[Vec<f64>]> = if some_in { Some(&store[..n_in]) } else { None };
    let mut out_store: [Vec<f64>; 2] = [[0.0f64; 4].to_vec(), [0.0f64; 4].to_vec()];
    let n_out: usize = kani::any();
    kani::assume(n_out <= 2);
    let mask_store: [bool; 3] = kani::any();
    let mask_len: usize = kani::any();
    kani::assume(mask_len <= 3);
    let use_mask: bool = kani::any();
    let mask: Option<&[bool]> = if use_mask { Some(&mask_store[..mask_len]) } else { None };
    let out_ptr = out_store.as_ptr() as usize;

    let res = Resampler::process_partial_into_buffer(&mut m, wave_in, &mut out_store[..n_out], mask);

    kani::cover!(some_in && m.ret_ok, "partial call reachable");
    kani::cover!(!some_in && m.ret_ok, "flush call reachable");
    assert!(m.seen.calls == 1, "C16: process_partial_into_buffer calls the core exactly once");
    assert!(m.seen.n_in == m.chans, "C16: the padded input has one vector per channel");
    assert!(m.seen.n_out == n_out, "C16: the output buffer is forwarded unchanged");
    assert!(m.seen.mask_some == use_mask && (!use_mask || m.seen.mask_len == mask_len), "C16: the mask is forwarded unchanged");
    let c: usize = kani::any();
    kani::assume(c < m.chans);
    let have = if some_in && c < n_in { lens[c] } else { usize::MAX };
    if have == usize::MAX {
        // no input supplied for this channel: an all-zero chunk
        assert!(m.seen.in_len[c] == m.next_in, "C16: missing input is replaced by input_frames_next() zeros");
        if m.probe_idx < m.next_in {
            assert!(m.seen.in_probe[c] == 0.0, "C16: missing input is replaced by zeros");
        }
    } else if have >= 1 {
        assert!(m.seen.in_len[c] == m.next_in, "C16: partial input is padded to input_frames_next()");
        let copied = if have < m.next_in { have } else { m.next_in };
        if m.probe_idx < copied {
            assert!(m.seen.in_probe[c].to_bits() == x.to_bits(), "C16: supplied frames are handed over unchanged");
        } else if m.probe_idx < m.next_in {
            assert!(m.seen.in_probe[c] == 0.0, "C16: the padding is zeros");
        }
    }
    match res {
        Ok((i, o)) => assert!(m.ret_ok && i == m.ret_in && o == m.ret_out, "C16: the core's counts are returned unchanged"),
        Err(e) => assert!(!m.ret_ok && matches!(e, ResampleError::SyncNotAdjustable), "C16: the core's error is propagated unchanged"),
    }
    let _ = out_ptr;
    std::mem::forget(store);
    std::mem::forget(out_store);
}

fn c16_process_partial_contract(chans: usize, next_in: usize, next_out: usize, l0: usize, l1: usize, n_in: usize) {
    let mut m = any_mock(chans, next_in, next_out);
    let x: f64 = kani::any();
    kani::assume(x == x);
    let store = input2(l0, l1, x);
    let lens = [l0, l1];
    let some_in: bool = kani::any();
    let wave_in: Option<&[Vec<f64>]> = if some_in { Some(&store[..n_in]) } else { None };
    let mask_store: [bool; 3] = kani::any();
    let mask_len: usize = kani::any();
    kani::assume(mask_len <= 3);
    let use_mask: bool = kani::any();
    let mask: Option<&[bool]> = if use_mask { Some(&mask_store[..mask_len]) } else { None };

    let res = Resampler::process_partial(&mut m, wave_in, mask);

    kani::cover!(some_in && m.ret_ok, "partial call reachable");
    kani::cover!(!some_in && m.ret_ok, "flush call reachable");
    assert!(m.seen.calls == 1, "C16: process_partial calls the core exactly once");
    assert!(m.seen.n_in == m.chans && m.seen.n_out == m.chans, "C16: one padded input and one output vector per channel");
    assert!(m.seen.mask_some == use_mask && (!use_mask || m.seen.mask_len == mask_len), "C16: the mask is forwarded unchanged");
    let c: usize = kani::any();
    kani::assume(c < m.chans);
    if active(mask, c) {
        assert!(m.seen.out_len[c] == m.next_out, "C16: active channel gets output_frames_next() frames");
    } else {
        assert!(m.seen.out_len[c] == 0, "C16: masked channel gets an empty vector");
    }
    let have = if some_in && c < n_in { lens[c] } else { usize::MAX };
    if have == usize::MAX || have >= 1 {
        assert!(m.seen.in_len[c] == m.next_in, "C16: input is padded to input_frames_next()");
        let copied = if have == usize::MAX { 0 } else if have < m.next_in { have } else { m.next_in };
        if m.probe_idx < copied {
            assert!(m.seen.in_probe[c].to_bits() == x.to_bits(), "C16: supplied frames are handed over unchanged");
        } else if m.probe_idx < m.next_in {
            assert!(m.seen.in_probe[c] == 0.0, "C16: the padding is zeros");
        }
    }
    match res {
        Ok(v) => {
            assert!(m.ret_ok && v.len() == m.chans, "C16: one vector per channel is returned");
            let want = if m.seen.out_len[c] < m.ret_out { m.seen.out_len[c] } else { m.ret_out };
            assert!(v[c].len() == want, "C16: each channel is truncated to the written count");
            if m.probe_idx < v[c].len() {
                assert!(v[c][m.probe_idx].to_bits() == m.seen.out_written[c].to_bits(), "C16: returned frames are the frames the core wrote");
            }
            std::mem::forget(v);
        }
        Err(e) => assert!(!m.ret_ok && matches!(e, ResampleError::SyncNotAdjustable), "C16: the core's error is propagated unchanged"),
    }
    std::mem::forget(store);
}

// @ob name=C16.VecResampler.forwards_unchanged props=C16 tier=quick kind=bounded fn=implement_resampler!(VecResampler) timeout=600 bound="the 13 forwarded methods, one per path; buffers of 0..=2 channels"
#[kani::proof]
#[kani::unwind(5)]
#[kani::solver(kissat)]
fn c16_vecresampler_forwards() {
    let mut m = any_mock(2, 3, 4);
    let which: u8 = kani::any();
    kani::assume(which < 9);
    let r: f64 = kani::any();
    let ramp: bool = kani::any();
    if which == 0 {
        assert!(VecResampler::input_frames_max(&m) == m.max_in, "C16: VecResampler::input_frames_max forwards");
    } else if which == 1 {
        assert!(VecResampler::input_frames_next(&m) == m.next_in, "C16: VecResampler::input_frames_next forwards");
    } else if which == 2 {
        assert!(VecResampler::output_frames_max(&m) == m.max_out, "C16: VecResampler::output_frames_max forwards");
    } else if which == 3 {
        assert!(VecResampler::output_frames_next(&m) == m.next_out, "C16: VecResampler::output_frames_next forwards");
    } else if which == 4 {
        assert!(VecResampler::output_delay(&m) == m.delay, "C16: VecResampler::output_delay forwards");
    } else if which == 5 {
        assert!(VecResampler::nbr_channels(&m) == m.chans, "C16: VecResampler::nbr_channels forwards");
    } else if which == 6 {
        let res = VecResampler::set_resample_ratio(&mut m, r, ramp);
        assert!(res.is_ok() && m.other_calls == 1 && m.last_ratio_bits == r.to_bits() && m.last_ramp == ramp, "C16: VecResampler::set_resample_ratio forwards its arguments and result");
    } else if which == 7 {
        let res = VecResampler::set_resample_ratio_relative(&mut m, r, ramp);
        assert!(res.is_err() && m.other_calls == 100 && m.last_ratio_bits == r.to_bits() && m.last_ramp == ramp, "C16: VecResampler::set_resample_ratio_relative forwards its arguments and result");
    } else {
        // process_into_buffer through the wrapper
        let store = input2(3, 2, 0.5);
        let n_in: usize = kani::any();
        kani::assume(n_in <= 2);
        let mut out_store: [Vec<f64>; 2] = [[0.0f64; 4].to_vec(), [0.0f64; 4].to_vec()];
        let n_out: usize = kani::any();
        kani::assume(n_out <= 2);
        let mask_store: [bool; 3] = kani::any();
        let mask_len: usize = kani::any();
        kani::assume(mask_len <= 3);
        let use_mask: bool = kani::any();
        let mask: Option<&[bool]> = if use_mask { Some(&mask_store[..mask_len]) } else { None };
        let in_ptr = store.as_ptr() as usize;
        let res = VecResampler::process_into_buffer(&mut m, &store[..n_in], &mut out_store[..n_out], mask);
        assert!(m.seen.calls == 1 && m.seen.n_in == n_in && m.seen.n_out == n_out && m.seen.in_ptr == in_ptr, "C16: VecResampler::process_into_buffer forwards both buffers unchanged");
        assert!(m.seen.mask_some == use_mask && (!use_mask || m.seen.mask_len == mask_len), "C16: VecResampler::process_into_buffer forwards the mask unchanged");
        match res {
            Ok((i, o)) => assert!(m.ret_ok && i == m.ret_in && o == m.ret_out, "C16: the core's counts are returned unchanged"),
            Err(_) => assert!(!m.ret_ok, "C16: the core's error is propagated"),
        }
        std::mem::forget(store);
        std::mem::forget(out_store);
    }
    kani::cover!(which == 8);
    kani::cover!(which == 6);
}

// @ob name=C16.process.contract.cfg_a props=C16,C13,C04 tier=quick kind=bounded fn=Resampler::process timeout=600 bound="concrete shape: channels=2, input_frames_next=3, output_frames_next=4, supplied input lengths (2,0) in 2 channels; mask None or any contents with any length 0..=3, core result and probe index symbolic"
#[kani::proof]
#[kani::unwind(6)]
#[kani::solver(kissat)]
fn c16_process_contract_a() {
    c16_process_contract(2, 3, 4, 2, 0, 2);
}

// @ob name=C16.process.contract.cfg_b props=C16 tier=quick kind=bounded fn=Resampler::process timeout=600 bound="concrete shape: channels=2, input_frames_next=3, output_frames_next=2, supplied input lengths (3,1) in 2 channels; mask None or any contents with any length 0..=3, core result and probe index symbolic"
#[kani::proof]
#[kani::unwind(6)]
#[kani::solver(kissat)]
fn c16_process_contract_b() {
    c16_process_contract(2, 3, 2, 3, 1, 2);
}

// @ob name=C16.process.contract.cfg_c props=C16 tier=quick kind=bounded fn=Resampler::process timeout=600 bound="concrete shape: channels=1, input_frames_next=2, output_frames_next=3, supplied input lengths (5,0) in 1 channels; mask None or any contents with any length 0..=3, core result and probe index symbolic"
#[kani::proof]
#[kani::unwind(6)]
#[kani::solver(kissat)]
fn c16_process_contract_c() {
    c16_process_contract(1, 2, 3, 5, 0, 1);
}

// @ob name=C16.process.contract.cfg_d props=C16 tier=quick kind=bounded fn=Resampler::process timeout=600 bound="concrete shape: channels=2, input_frames_next=1, output_frames_next=0, supplied input lengths (1,3) in 1 channels; mask None or any contents with any length 0..=3, core result and probe index symbolic"
#[kani::proof]
#[kani::unwind(6)]
#[kani::solver(kissat)]
fn c16_process_contract_d() {
    c16_process_contract(2, 1, 0, 1, 3, 1);
}

// @ob name=C16.process.contract.cfg_e props=C16 tier=quick kind=bounded fn=Resampler::process timeout=600 bound="concrete shape: channels=0, input_frames_next=3, output_frames_next=3, supplied input lengths (0,0) in 0 channels; mask None or any contents with any length 0..=3, core result and probe index symbolic"
#[kani::proof]
#[kani::unwind(6)]
#[kani::solver(kissat)]
fn c16_process_contract_e() {
    c16_process_contract(0, 3, 3, 0, 0, 0);
}

// @ob name=C16.process_partial_into_buffer.contract.cfg_a props=C16 tier=quick kind=bounded fn=Resampler::process_partial_into_buffer timeout=600 bound="concrete shape: channels=2, input_frames_next=3, output_frames_next=4, supplied input lengths (2,0) in 2 channels; mask None or any contents with any length 0..=3, core result and probe index symbolic"
#[kani::proof]
#[kani::unwind(6)]
#[kani::solver(kissat)]
fn c16_process_partial_into_buffer_contract_a() {
    c16_process_partial_into_buffer_contract(2, 3, 4, 2, 0, 2);
}

// @ob name=C16.process_partial_into_buffer.contract.cfg_b props=C16 tier=quick kind=bounded fn=Resampler::process_partial_into_buffer timeout=600 bound="concrete shape: channels=2, input_frames_next=3, output_frames_next=2, supplied input lengths (3,1) in 2 channels; mask None or any contents with any length 0..=3, core result and probe index symbolic"
#[kani::proof]
#[kani::unwind(6)]
#[kani::solver(kissat)]
fn c16_process_partial_into_buffer_contract_b() {
    c16_process_partial_into_buffer_contract(2, 3, 2, 3, 1, 2);
}

// @ob name=C16.process_partial_into_buffer.contract.cfg_c props=C16 tier=quick kind=bounded fn=Resampler::process_partial_into_buffer timeout=600 bound="concrete shape: channels=1, input_frames_next=2, output_frames_next=3, supplied input lengths (5,0) in 1 channels; mask None or any contents with any length 0..=3, core result and probe index symbolic"
#[kani::proof]
#[kani::unwind(6)]
#[kani::solver(kissat)]
fn c16_process_partial_into_buffer_contract_c() {
    c16_process_partial_into_buffer_contract(1, 2, 3, 5, 0, 1);
}

// @ob name=C16.process_partial_into_buffer.contract.cfg_d props=C16 tier=quick kind=bounded fn=Resampler::process_partial_into_buffer timeout=600 bound="concrete shape: channels=2, input_frames_next=1, output_frames_next=0, supplied input lengths (1,3) in 1 channels; mask None or any contents with any length 0..=3, core result and probe index symbolic"
#[kani::proof]
#[kani::unwind(6)]
#[kani::solver(kissat)]
fn c16_process_partial_into_buffer_contract_d() {
    c16_process_partial_into_buffer_contract(2, 1, 0, 1, 3, 1);
}

// @ob name=C16.process_partial_into_buffer.contract.cfg_e props=C16 tier=quick kind=bounded fn=Resampler::process_partial_into_buffer timeout=600 bound="concrete shape: channels=0, input_frames_next=3, output_frames_next=3, supplied input lengths (0,0) in 0 channels; mask None or any contents with any length 0..=3, core result and probe index symbolic"
#[kani::proof]
#[kani::unwind(6)]
#[kani::solver(kissat)]
fn c16_process_partial_into_buffer_contract_e() {
    c16_process_partial_into_buffer_contract(0, 3, 3, 0, 0, 0);
}

// @ob name=C16.process_partial.contract.cfg_a props=C16,C13 tier=quick kind=bounded fn=Resampler::process_partial timeout=600 bound="concrete shape: channels=2, input_frames_next=3, output_frames_next=4, supplied input lengths (2,0) in 2 channels; mask None or any contents with any length 0..=3, core result and probe index symbolic"
#[kani::proof]
#[kani::unwind(6)]
#[kani::solver(kissat)]
fn c16_process_partial_contract_a() {
    c16_process_partial_contract(2, 3, 4, 2, 0, 2);
}

// @ob name=C16.process_partial.contract.cfg_b props=C16 tier=quick kind=bounded fn=Resampler::process_partial timeout=600 bound="concrete shape: channels=2, input_frames_next=3, output_frames_next=2, supplied input lengths (3,1) in 2 channels; mask None or any contents with any length 0..=3, core result and probe index symbolic"
#[kani::proof]
#[kani::unwind(6)]
#[kani::solver(kissat)]
fn c16_process_partial_contract_b() {
    c16_process_partial_contract(2, 3, 2, 3, 1, 2);
}

// @ob name=C16.process_partial.contract.cfg_c props=C16 tier=quick kind=bounded fn=Resampler::process_partial timeout=600 bound="concrete shape: channels=1, input_frames_next=2, output_frames_next=3, supplied input lengths (5,0) in 1 channels; mask None or any contents with any length 0..=3, core result and probe index symbolic"
#[kani::proof]
#[kani::unwind(6)]
#[kani::solver(kissat)]
fn c16_process_partial_contract_c() {
    c16_process_partial_contract(1, 2, 3, 5, 0, 1);
}

// @ob name=C16.process_partial.contract.cfg_d props=C16 tier=quick kind=bounded fn=Resampler::process_partial timeout=600 bound="concrete shape: channels=2, input_frames_next=1, output_frames_next=0, supplied input lengths (1,3) in 1 channels; mask None or any contents with any length 0..=3, core result and probe index symbolic"
#[kani::proof]
#[kani::unwind(6)]
#[kani::solver(kissat)]
fn c16_process_partial_contract_d() {
    c16_process_partial_contract(2, 1, 0, 1, 3, 1);
}

// @ob name=C16.process_partial.contract.cfg_e props=C16 tier=quick kind=bounded fn=Resampler::process_partial timeout=600 bound="concrete shape: channels=0, input_frames_next=3, output_frames_next=3, supplied input lengths (0,0) in 0 channels; mask None or any contents with any length 0..=3, core result and probe index symbolic"
#[kani::proof]
#[kani::unwind(6)]
#[kani::solver(kissat)]
fn c16_process_partial_contract_e() {
    c16_process_partial_contract(0, 3, 3, 0, 0, 0);
}
