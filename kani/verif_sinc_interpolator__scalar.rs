// Tier A (bounded companion of the unbounded Verus contract in verus/scalar_kernel.rs.tmpl; supplies replayable inputs): contract of the real scalar kernel (the callee of the sinc loops' `get_sinc_interpolated` obligations in Tier B):
// under its precondition (index + len < wave.len(), subindex < nbr_sincs, every row has `length` taps, length % 8 == 0) it
// does not panic and every unchecked read stays inside `wave[index .. index+length]` and the selected row
// (CBMC's pointer checks on the real unsafe block).
use super::*;

fn kernel_contract(length: usize) {
    // values are concrete: the obligation is about which addresses are read, not about the numbers (symbolic f64 products
    // only add NaN side checks and solver time)
    let rows: [[f64; 16]; 2] = [[0.5; 16], [0.25; 16]];
    let it = ScalarInterpolator::<f64> {
        sincs: [rows[0][..length].to_vec(), rows[1][..length].to_vec()].to_vec(),
        length,
        nbr_sincs: 2,
    };
    let wave: [f64; 40] = [1.0; 40];
    let wlen: usize = kani::any();
    kani::assume(wlen <= 40);
    let index: usize = kani::any();
    let sub: usize = kani::any();
    // the precondition the Tier B loop obligations establish at every call site
    kani::assume(index < 64 && index + length < wlen && sub < 2);
    let _v = it.get_sinc_interpolated(&wave[..wlen], index, sub);
    kani::cover!(index + length + 1 == wlen, "last admissible position reachable");
    std::mem::forget(it);
}

// @ob name=SINC.ScalarInterpolator.get_sinc_interpolated.contract.len8 props=C03 tier=quick kind=bounded fn=ScalarInterpolator::get_sinc_interpolated timeout=600 bound="sinc length 8, 2 sub-filters, wave length <= 40, index, sub-filter and slice length symbolic, sample values concrete"
#[kani::proof]
#[kani::unwind(4)]
#[kani::solver(kissat)]
fn c03_scalar_kernel_len8() {
    kernel_contract(8);
}

// @ob name=SINC.ScalarInterpolator.get_sinc_interpolated.contract.len16 props=C03 tier=quick kind=bounded fn=ScalarInterpolator::get_sinc_interpolated timeout=600 bound="sinc length 16, 2 sub-filters, wave length <= 40, index, sub-filter and slice length symbolic, sample values concrete"
#[kani::proof]
#[kani::unwind(4)]
#[kani::solver(kissat)]
fn c03_scalar_kernel_len16() {
    kernel_contract(16);
}
