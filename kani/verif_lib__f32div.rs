// Tier A cross-check of lemma L-f32div (Tier C derives it from the rounding model with Z3, vlib/tierc.py::f32div_lemma): the two
// float idioms synchro.rs uses for integer division, bit-precisely, for all operands below a stated width (CBMC does not finish
// the 2^24 domain: 2^12 takes ~100 s, 2^16 > 20 min - measured).
fn ceil_idiom(a: usize, b: usize) -> usize {
    ((a as f32) / (b as f32)).ceil() as usize
}
fn floor_idiom(a: usize, b: usize) -> usize {
    ((a as f32) / (b as f32)).floor() as usize
}

fn lemma(bits: u32) {
    let a: usize = kani::any();
    let b: usize = kani::any();
    kani::assume(a < (1usize << bits) && b > 0 && b < (1usize << bits));
    let q = a / b;
    assert!(floor_idiom(a, b) == q, "L-f32div: floor idiom == integer quotient");
    assert!(ceil_idiom(a, b) == if a % b == 0 { q } else { q + 1 }, "L-f32div: ceil idiom == rounded-up quotient");
    kani::cover!(a % b != 0 && q > 3);
}

// @ob name=L-f32div.bit_precise.below_2^8 props=C03,C04,C07 tier=quick kind=bounded fn=synchro::f32_division_idiom timeout=300 bound="operands < 2^8"
#[kani::proof]
fn f32div_8() {
    lemma(8);
}

// @ob name=L-f32div.bit_precise.below_2^12 props=C04 tier=thorough kind=bounded fn=synchro::f32_division_idiom timeout=900 bound="operands < 2^12"
#[kani::proof]
fn f32div_12() {
    lemma(12);
}
