// Tier A contracts: the synchronous resamplers reject every ratio / chunk-size change and stay unchanged (C12).
use super::verif_synchro__common::*;
use super::*;
use crate::error::ResampleError;
use crate::Resampler;

fn v3() -> Vec<f64> {
    [kani::any::<f64>(); 3].to_vec()
}
fn vv() -> Vec<Vec<f64>> {
    [v3(), v3()].to_vec()
}
fn m2() -> Vec<bool> {
    [kani::any::<bool>(), kani::any::<bool>()].to_vec()
}

fn bits(v: &Vec<Vec<f64>>) -> [u64; 6] {
    [v[0][0].to_bits(), v[0][1].to_bits(), v[0][2].to_bits(), v[1][0].to_bits(), v[1][1].to_bits(), v[1][2].to_bits()]
}
fn same6(a: [u64; 6], b: [u64; 6]) -> bool {
    a[0] == b[0] && a[1] == b[1] && a[2] == b[2] && a[3] == b[3] && a[4] == b[4] && a[5] == b[5]
}
fn unit_sig(u: &FftResampler<f64>) -> (usize, usize, usize, usize, usize, usize) {
    (u.fft_size_in, u.fft_size_out, u.input_buf.len(), u.output_buf.len(), u.input_f.len(), u.output_f.len())
}

// @ob name=C12.FftFixedIn.controls_rejected props=C12 tier=quick kind=complete feat=fft fn=FftFixedIn::set_resample_ratio,FftFixedIn::set_resample_ratio_relative,Resampler::set_chunk_size(default)
#[kani::proof]
#[kani::unwind(5)]
fn c12_fftin_controls() {
    let mut r = FftFixedIn::<f64> {
        nbr_channels: 2,
        chunk_size_in: kani::any(),
        fft_size_in: kani::any(),
        fft_size_out: kani::any(),
        overlaps: vv(),
        input_buffers: vv(),
        channel_mask: m2(),
        saved_frames: kani::any(),
        resampler: mk_unit(2, 3),
    };
    let old = (r.nbr_channels, r.chunk_size_in, r.fft_size_in, r.fft_size_out, r.saved_frames, r.channel_mask[0], r.channel_mask[1]);
    let (o1, o2, ou) = (bits(&r.overlaps), bits(&r.input_buffers), unit_sig(&r.resampler));
    let which: u8 = kani::any();
    let res = if which == 0 {
        r.set_resample_ratio(kani::any(), kani::any())
    } else if which == 1 {
        r.set_resample_ratio_relative(kani::any(), kani::any())
    } else {
        r.set_chunk_size(kani::any())
    };
    if which <= 1 {
        assert!(matches!(res, Err(ResampleError::SyncNotAdjustable)), "C12: synchronous resampler answers SyncNotAdjustable");
    } else {
        assert!(matches!(res, Err(ResampleError::ChunkSizeNotAdjustable)), "C12: FftFixedIn answers ChunkSizeNotAdjustable");
    }
    let now = (r.nbr_channels, r.chunk_size_in, r.fft_size_in, r.fft_size_out, r.saved_frames, r.channel_mask[0], r.channel_mask[1]);
    assert!(old == now && same6(o1, bits(&r.overlaps)) && same6(o2, bits(&r.input_buffers)) && ou == unit_sig(&r.resampler), "C12: rejected control call changes nothing");
    kani::cover!(which == 0);
    kani::cover!(which == 1);
    kani::cover!(which == 2);
    std::mem::forget(r);
}

// @ob name=C12.FftFixedOut.controls_rejected props=C12 tier=quick kind=complete feat=fft fn=FftFixedOut::set_resample_ratio,FftFixedOut::set_resample_ratio_relative,Resampler::set_chunk_size(default)
#[kani::proof]
#[kani::unwind(5)]
fn c12_fftout_controls() {
    let mut r = FftFixedOut::<f64> {
        nbr_channels: 2,
        chunk_size_out: kani::any(),
        fft_size_in: kani::any(),
        fft_size_out: kani::any(),
        overlaps: vv(),
        output_buffers: vv(),
        channel_mask: m2(),
        saved_frames: kani::any(),
        frames_needed: kani::any(),
        resampler: mk_unit(2, 3),
    };
    let old = (r.nbr_channels, r.chunk_size_out, r.fft_size_in, r.fft_size_out, r.saved_frames, r.frames_needed, r.channel_mask[0], r.channel_mask[1]);
    let (o1, o2, ou) = (bits(&r.overlaps), bits(&r.output_buffers), unit_sig(&r.resampler));
    let which: u8 = kani::any();
    let res = if which == 0 {
        r.set_resample_ratio(kani::any(), kani::any())
    } else if which == 1 {
        r.set_resample_ratio_relative(kani::any(), kani::any())
    } else {
        r.set_chunk_size(kani::any())
    };
    if which <= 1 {
        assert!(matches!(res, Err(ResampleError::SyncNotAdjustable)), "C12: synchronous resampler answers SyncNotAdjustable");
    } else {
        assert!(matches!(res, Err(ResampleError::ChunkSizeNotAdjustable)), "C12: FftFixedOut answers ChunkSizeNotAdjustable");
    }
    let now = (r.nbr_channels, r.chunk_size_out, r.fft_size_in, r.fft_size_out, r.saved_frames, r.frames_needed, r.channel_mask[0], r.channel_mask[1]);
    assert!(old == now && same6(o1, bits(&r.overlaps)) && same6(o2, bits(&r.output_buffers)) && ou == unit_sig(&r.resampler), "C12: rejected control call changes nothing");
    kani::cover!(which == 0);
    kani::cover!(which == 1);
    kani::cover!(which == 2);
    std::mem::forget(r);
}

// @ob name=C12.FftFixedInOut.controls_rejected props=C12 tier=quick kind=complete feat=fft fn=FftFixedInOut::set_resample_ratio,FftFixedInOut::set_resample_ratio_relative,Resampler::set_chunk_size(default)
#[kani::proof]
#[kani::unwind(5)]
fn c12_fftinout_controls() {
    let mut r = FftFixedInOut::<f64> {
        nbr_channels: 2,
        chunk_size_in: kani::any(),
        chunk_size_out: kani::any(),
        fft_size_in: kani::any(),
        channel_mask: m2(),
        overlaps: vv(),
        resampler: mk_unit(2, 3),
    };
    let old = (r.nbr_channels, r.chunk_size_in, r.chunk_size_out, r.fft_size_in, r.channel_mask[0], r.channel_mask[1]);
    let (o1, ou) = (bits(&r.overlaps), unit_sig(&r.resampler));
    let which: u8 = kani::any();
    let res = if which == 0 {
        r.set_resample_ratio(kani::any(), kani::any())
    } else if which == 1 {
        r.set_resample_ratio_relative(kani::any(), kani::any())
    } else {
        r.set_chunk_size(kani::any())
    };
    if which <= 1 {
        assert!(matches!(res, Err(ResampleError::SyncNotAdjustable)), "C12: synchronous resampler answers SyncNotAdjustable");
    } else {
        assert!(matches!(res, Err(ResampleError::ChunkSizeNotAdjustable)), "C12: FftFixedInOut answers ChunkSizeNotAdjustable");
    }
    let now = (r.nbr_channels, r.chunk_size_in, r.chunk_size_out, r.fft_size_in, r.channel_mask[0], r.channel_mask[1]);
    assert!(old == now && same6(o1, bits(&r.overlaps)) && ou == unit_sig(&r.resampler), "C12: rejected control call changes nothing");
    kani::cover!(which == 0);
    kani::cover!(which == 1);
    kani::cover!(which == 2);
    std::mem::forget(r);
}
