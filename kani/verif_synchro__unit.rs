// Tier A: contract of the real FftResampler::resample_unit against harness-defined FFT plans that assert realfft's documented
// length preconditions (C03), plus: the shared work buffers are completely rewritten from this channel's data before each
// transform, the output is transform + this channel's overlap, and the overlap is replaced by this unit's tail (C11).
use super::verif_synchro__common::*;
use super::*;
use num_complex::Complex;
use realfft::{ComplexToReal, FftError, RealToComplex};

static mut SEEN_IN: [f64; 16] = [0.0; 16];
static mut SEEN_IN_LEN: usize = 0;
static mut SEEN_SPEC: [Complex<f64>; 16] = [Complex { re: 0.0, im: 0.0 }; 16];
static mut SEEN_SPEC_LEN: usize = 0;
static mut INV_OUT: [f64; 16] = [0.0; 16];

struct RecFwd {
    len: usize,
}
struct RecInv {
    len: usize,
}
impl RealToComplex<f64> for RecFwd {
    fn process(&self, _i: &mut [f64], _o: &mut [Complex<f64>]) -> Result<(), FftError> {
        panic!("allocating variant used")
    }
    fn process_with_scratch(&self, input: &mut [f64], output: &mut [Complex<f64>], scratch: &mut [Complex<f64>]) -> Result<(), FftError> {
        assert!(input.len() == self.len, "realfft precondition: forward input length == fft length");
        assert!(output.len() == self.len / 2 + 1, "realfft precondition: forward output length == len/2+1");
        assert!(scratch.len() >= 1, "realfft precondition: forward scratch length");
        let mut k = 0;
        while k < 16 {
            if k < input.len() {
                unsafe { SEEN_IN[k] = input[k] };
                input[k] = kani::any(); // the input buffer is scratch space for realfft: garbage afterwards
            }
            if k < output.len() {
                let (re, im): (f64, f64) = (kani::any(), kani::any());
                kani::assume(re == re && im == im && re.abs() < 1.0e6 && im.abs() < 1.0e6);
                output[k] = Complex::new(re, im);
            }
            k += 1;
        }
        unsafe { SEEN_IN_LEN = input.len() };
        Ok(())
    }
    fn get_scratch_len(&self) -> usize {
        1
    }
    fn len(&self) -> usize {
        self.len
    }
    fn make_input_vec(&self) -> Vec<f64> {
        Vec::new()
    }
    fn make_output_vec(&self) -> Vec<Complex<f64>> {
        Vec::new()
    }
    fn make_scratch_vec(&self) -> Vec<Complex<f64>> {
        Vec::new()
    }
}
impl ComplexToReal<f64> for RecInv {
    fn process(&self, _i: &mut [Complex<f64>], _o: &mut [f64]) -> Result<(), FftError> {
        panic!("allocating variant used")
    }
    fn process_with_scratch(&self, input: &mut [Complex<f64>], output: &mut [f64], scratch: &mut [Complex<f64>]) -> Result<(), FftError> {
        assert!(input.len() == self.len / 2 + 1, "realfft precondition: inverse input length == len/2+1");
        assert!(output.len() == self.len, "realfft precondition: inverse output length == fft length");
        assert!(scratch.len() >= 1, "realfft precondition: inverse scratch length");
        let mut k = 0;
        while k < 16 {
            if k < input.len() {
                unsafe { SEEN_SPEC[k] = input[k] };
            }
            if k < output.len() {
                let v: f64 = kani::any();
                kani::assume(v == v && v.abs() < 1.0e6);
                output[k] = v;
                unsafe { INV_OUT[k] = v };
            }
            k += 1;
        }
        unsafe { SEEN_SPEC_LEN = input.len() };
        Ok(())
    }
    fn get_scratch_len(&self) -> usize {
        1
    }
    fn len(&self) -> usize {
        self.len
    }
    fn make_input_vec(&self) -> Vec<Complex<f64>> {
        Vec::new()
    }
    fn make_output_vec(&self) -> Vec<f64> {
        Vec::new()
    }
    fn make_scratch_vec(&self) -> Vec<Complex<f64>> {
        Vec::new()
    }
}

fn unit_contract(fft_in: usize, fft_out: usize) {
    let mut u = mk_unit(fft_in, fft_out);
    u.fft = Arc::new(RecFwd { len: 2 * fft_in });
    u.ifft = Arc::new(RecInv { len: 2 * fft_out });
    // arbitrary left-overs of the previously processed channel in every shared work buffer
    let mut k = 0;
    while k < 16 {
        if k < u.input_buf.len() {
            u.input_buf[k] = kani::any();
        }
        if k < u.output_buf.len() {
            u.output_buf[k] = kani::any();
        }
        if k < u.input_f.len() {
            u.input_f[k] = Complex::new(kani::any(), kani::any());
        }
        if k < u.output_f.len() {
            u.output_f[k] = Complex::new(kani::any(), kani::any());
        }
        k += 1;
    }
    let wi: [f64; 4] = kani::any();
    let ov0: [f64; 4] = kani::any();
    kani::assume(ov0[0] == ov0[0] && ov0[1] == ov0[1] && ov0[2] == ov0[2] && ov0[3] == ov0[3]);
    kani::assume(ov0[0].abs() < 1.0e6 && ov0[1].abs() < 1.0e6 && ov0[2].abs() < 1.0e6 && ov0[3].abs() < 1.0e6);
    let wave_in = wi[..fft_in].to_vec();
    let mut wave_out = [7.0f64; 4][..fft_out].to_vec();
    let mut overlap = ov0[..fft_out].to_vec();

    u.resample_unit(&wave_in, &mut wave_out, &mut overlap);

    let j: usize = kani::any();
    kani::assume(j < 16);
    unsafe {
        assert!(SEEN_IN_LEN == 2 * fft_in && SEEN_SPEC_LEN == fft_out + 1, "C03: both transforms were run on buffers of the planned lengths");
        if j < fft_in {
            assert!(SEEN_IN[j].to_bits() == wi[j].to_bits(), "C11: the forward transform sees exactly this channel's chunk");
        } else if j < 2 * fft_in {
            assert!(SEEN_IN[j] == 0.0, "C11: the padding half of the shared input buffer is cleared for every unit");
        }
        let new_len = if fft_in < fft_out { fft_in + 1 } else { fft_out };
        if j >= new_len && j < fft_out + 1 {
            assert!(SEEN_SPEC[j].re == 0.0 && SEEN_SPEC[j].im == 0.0, "C11: the unused upper part of the shared output spectrum is cleared for every unit");
        }
        if j < fft_out {
            assert!(wave_out[j] == INV_OUT[j] + ov0[j], "C05/C11: output = this unit's transform + this channel's saved overlap");
            assert!(overlap[j].to_bits() == INV_OUT[fft_out + j].to_bits(), "C05/C11: the channel's overlap becomes the tail of this unit's transform");
        }
    }
    kani::cover!(j == 0, "probe reachable");
    std::mem::forget(u);
    std::mem::forget(wave_in);
    std::mem::forget(wave_out);
    std::mem::forget(overlap);
}

// @ob name=FFT.FftResampler.resample_unit.contract.down props=C03,C11,C05 thorough_for=C03,C05 tier=quick kind=bounded feat=fft fn=FftResampler::resample_unit timeout=900 bound="fft_size_in=3, fft_size_out=2 (concrete), all sample data and all stale buffer contents symbolic"
#[kani::proof]
#[kani::unwind(18)]
#[kani::solver(kissat)]
fn c11_resample_unit_down() {
    unit_contract(3, 2);
}

// @ob name=FFT.FftResampler.resample_unit.contract.up props=C03,C11,C05 thorough_for=C03,C05 tier=quick kind=bounded feat=fft fn=FftResampler::resample_unit timeout=900 bound="fft_size_in=2, fft_size_out=3 (concrete), all sample data and all stale buffer contents symbolic"
#[kani::proof]
#[kani::unwind(18)]
#[kani::solver(kissat)]
fn c11_resample_unit_up() {
    unit_contract(2, 3);
}
