// Tier A: contract of validate_sample_rates (constructor argument validation, C13).
use super::*;
use crate::error::ResamplerConstructionError;

// @ob name=C13.synchro.validate_sample_rates.contract props=C13 tier=quick kind=complete feat=fft fn=synchro::validate_sample_rates
#[kani::proof]
#[kani::unwind(2)]
fn c13_synchro_validate_sample_rates() {
    let i: usize = kani::any();
    let o: usize = kani::any();
    let res = validate_sample_rates(i, o);
    assert!(res.is_ok() == (i != 0 && o != 0), "C13: sample rates accepted exactly when both are non-zero");
    if let Err(e) = res {
        assert!(matches!(e, ResamplerConstructionError::InvalidSampleRate { input, output } if input == i && output == o), "C13: InvalidSampleRate carries both rates");
    }
    kani::cover!(i == 0);
    kani::cover!(o == 0 && i != 0);
    kani::cover!(i != 0 && o != 0);
}
