// Shared support for the synchro.rs harnesses: harness-defined FFT plan objects and builders.
// The plan objects stand for realfft's plans under realfft's *documented* contract (assumed, external):
// process_with_scratch requires input.len()==len, output.len()==len/2+1 (forward) resp.
// input.len()==len/2+1, output.len()==len (inverse), scratch.len()>=get_scratch_len(); it reads its
// inputs, overwrites its output with arbitrary values and does not allocate. The allocating variants
// (process, make_*_vec) are marked so that C09 can detect their use.
use super::*;
use num_complex::Complex;
use realfft::{ComplexToReal, FftError, RealToComplex};

pub(crate) static mut ALLOCATING_FFT_CALLS: usize = 0;

pub(crate) struct FwdPlan {
    pub len: usize,
    pub scratch: usize,
}
pub(crate) struct InvPlan {
    pub len: usize,
    pub scratch: usize,
}

impl RealToComplex<f64> for FwdPlan {
    fn process(&self, input: &mut [f64], output: &mut [Complex<f64>]) -> Result<(), FftError> {
        unsafe { ALLOCATING_FFT_CALLS += 1 };
        let mut s = [Complex::new(0.0, 0.0); 8].to_vec();
        self.process_with_scratch(input, output, &mut s[..self.scratch])
    }
    fn process_with_scratch(&self, input: &mut [f64], output: &mut [Complex<f64>], scratch: &mut [Complex<f64>]) -> Result<(), FftError> {
        assert!(input.len() == self.len, "realfft precondition: forward input length == fft length");
        assert!(output.len() == self.len / 2 + 1, "realfft precondition: forward output length == len/2+1");
        assert!(scratch.len() >= self.scratch, "realfft precondition: forward scratch length");
        let i: usize = kani::any();
        if i < output.len() {
            output[i] = Complex::new(kani::any(), kani::any());
        }
        Ok(())
    }
    fn get_scratch_len(&self) -> usize {
        self.scratch
    }
    fn len(&self) -> usize {
        self.len
    }
    fn make_input_vec(&self) -> Vec<f64> {
        unsafe { ALLOCATING_FFT_CALLS += 1 };
        Vec::new()
    }
    fn make_output_vec(&self) -> Vec<Complex<f64>> {
        unsafe { ALLOCATING_FFT_CALLS += 1 };
        Vec::new()
    }
    fn make_scratch_vec(&self) -> Vec<Complex<f64>> {
        unsafe { ALLOCATING_FFT_CALLS += 1 };
        Vec::new()
    }
}

impl ComplexToReal<f64> for InvPlan {
    fn process(&self, input: &mut [Complex<f64>], output: &mut [f64]) -> Result<(), FftError> {
        unsafe { ALLOCATING_FFT_CALLS += 1 };
        let mut s = [Complex::new(0.0, 0.0); 8].to_vec();
        self.process_with_scratch(input, output, &mut s[..self.scratch])
    }
    fn process_with_scratch(&self, input: &mut [Complex<f64>], output: &mut [f64], scratch: &mut [Complex<f64>]) -> Result<(), FftError> {
        assert!(input.len() == self.len / 2 + 1, "realfft precondition: inverse input length == len/2+1");
        assert!(output.len() == self.len, "realfft precondition: inverse output length == fft length");
        assert!(scratch.len() >= self.scratch, "realfft precondition: inverse scratch length");
        let i: usize = kani::any();
        if i < output.len() {
            output[i] = kani::any();
        }
        Ok(())
    }
    fn get_scratch_len(&self) -> usize {
        self.scratch
    }
    fn len(&self) -> usize {
        self.len
    }
    fn complex_len(&self) -> usize {
        self.len / 2 + 1
    }
    fn make_input_vec(&self) -> Vec<Complex<f64>> {
        unsafe { ALLOCATING_FFT_CALLS += 1 };
        Vec::new()
    }
    fn make_output_vec(&self) -> Vec<f64> {
        unsafe { ALLOCATING_FFT_CALLS += 1 };
        Vec::new()
    }
    fn make_scratch_vec(&self) -> Vec<Complex<f64>> {
        unsafe { ALLOCATING_FFT_CALLS += 1 };
        Vec::new()
    }
}

fn cz(n: usize) -> Vec<Complex<f64>> {
    let a = [Complex::new(0.0f64, 0.0f64); 16];
    a[..n].to_vec()
}
fn rz(n: usize) -> Vec<f64> {
    let a = [0.0f64; 32];
    a[..n].to_vec()
}

/// An FftResampler with the constructor's vector lengths for (fft_in, fft_out) (both <= 8) and
/// harness-defined plans.
pub(crate) fn mk_unit(fft_in: usize, fft_out: usize) -> FftResampler<f64> {
    FftResampler::<f64> {
        fft_size_in: fft_in,
        fft_size_out: fft_out,
        filter_f: cz(fft_in + 1),
        fft: Arc::new(FwdPlan { len: 2 * fft_in, scratch: 1 }),
        ifft: Arc::new(InvPlan { len: 2 * fft_out, scratch: 1 }),
        scratch_fw: cz(1),
        scratch_inv: cz(1),
        input_buf: rz(2 * fft_in),
        input_f: cz(fft_in + 1),
        output_f: cz(fft_out + 1),
        output_buf: rz(2 * fft_out),
    }
}
