// Tier A: contract of the real validate_buffers (C13, also used by C11: only active channels are inspected).
// Child module of src/lib.rs (snapshot only).
use crate::error::ResampleError;
use crate::validate_buffers;

// @ob name=C13.validate_buffers.contract props=C13,C11,C03 tier=quick kind=complete fn=validate_buffers timeout=400 bound="0..=3 channels for input, output and mask independently; every channel length 0..=4 and both minima fully symbolic (the two channel loops are unwound completely, unwinding assertions on)"
#[kani::proof]
#[kani::unwind(5)]
#[kani::solver(kissat)]
fn c13_validate_buffers_contract() {
    let store_in: [[f64; 4]; 3] = [[1.0; 4]; 3];
    let mut store_out: [[f64; 4]; 3] = kani::any();
    let before = store_out;
    let (li0, li1, li2): (usize, usize, usize) = (kani::any(), kani::any(), kani::any());
    let (lo0, lo1, lo2): (usize, usize, usize) = (kani::any(), kani::any(), kani::any());
    kani::assume(li0 <= 4 && li1 <= 4 && li2 <= 4 && lo0 <= 4 && lo1 <= 4 && lo2 <= 4);
    let ins: [&[f64]; 3] = [&store_in[0][..li0], &store_in[1][..li1], &store_in[2][..li2]];
    let in_lens = [li0, li1, li2];
    let out_lens = [lo0, lo1, lo2];
    let [so0, so1, so2] = &mut store_out;
    let mut outs: [&mut [f64]; 3] = [&mut so0[..lo0], &mut so1[..lo1], &mut so2[..lo2]];
    let mask_store: [bool; 3] = kani::any();
    let (n_in, n_out, n_mask, channels): (usize, usize, usize, usize) = (kani::any(), kani::any(), kani::any(), kani::any());
    kani::assume(n_in <= 3 && n_out <= 3 && n_mask <= 3);
    let (min_in, min_out): (usize, usize) = (kani::any(), kani::any());
    let mask = &mask_store[..n_mask];

    let res = validate_buffers(&ins[..n_in], &mut outs[..n_out], mask, channels, min_in, min_out);

    // the defects a call can have
    let bad_in_count = n_in != channels;
    let bad_mask = n_mask != channels;
    let bad_out_count = n_out != channels;
    let mut short_in = false;
    let mut short_out = false;
    let mut c = 0;
    while c < 3 {
        if c < n_in && c < n_mask && mask_store[c] && in_lens[c] < min_in {
            short_in = true;
        }
        if c < n_out && c < n_mask && mask_store[c] && out_lens[c] < min_out {
            short_out = true;
        }
        c += 1;
    }
    let well_formed = !bad_in_count && !bad_mask && !bad_out_count && !short_in && !short_out;
    assert!(res.is_ok() == well_formed, "C13: Ok exactly when channel counts, mask length and every active channel length are sufficient");
    match res {
        Ok(()) => {}
        Err(ResampleError::WrongNumberOfInputChannels { expected, actual }) => {
            assert!(bad_in_count && expected == channels && actual == n_in, "C13: WrongNumberOfInputChannels carries expected and actual counts");
        }
        Err(ResampleError::WrongNumberOfOutputChannels { expected, actual }) => {
            assert!(bad_out_count && expected == channels && actual == n_out, "C13: WrongNumberOfOutputChannels carries expected and actual counts");
        }
        Err(ResampleError::WrongNumberOfMaskChannels { expected, actual }) => {
            assert!(bad_mask && expected == channels && actual == n_mask, "C13: WrongNumberOfMaskChannels carries expected count and the mask length");
        }
        Err(ResampleError::InsufficientInputBufferSize { channel, expected, actual }) => {
            assert!(channel < n_in && channel < n_mask && mask_store[channel] && actual == in_lens[channel] && expected == min_in && actual < expected,
                "C13: InsufficientInputBufferSize names an active, too short input channel with expected and actual sizes");
        }
        Err(ResampleError::InsufficientOutputBufferSize { channel, expected, actual }) => {
            assert!(channel < n_out && channel < n_mask && mask_store[channel] && actual == out_lens[channel] && expected == min_out && actual < expected,
                "C13: InsufficientOutputBufferSize names an active, too short output channel with expected and actual sizes");
        }
        Err(_) => {
            assert!(false, "C13: validate_buffers returns only the five shape errors");
        }
    }
    // writes nothing
    let (i, j): (usize, usize) = (kani::any(), kani::any());
    kani::assume(i < 3 && j < 4);
    assert!(store_out[i][j].to_bits() == before[i][j].to_bits(), "C13: validation writes nothing to the output buffers");
    kani::cover!(well_formed && channels == 3, "a valid 3-channel call is reachable");
    kani::cover!(well_formed && channels == 2 && !mask_store[0] && li0 == 0 && lo0 == 0, "masked channel passed as empty slices is accepted");
    let cov_in = short_in && !bad_in_count && !bad_mask;
    let cov_out = short_out && !short_in && !bad_in_count && !bad_mask && !bad_out_count;
    kani::cover!(cov_in, "short active input channel reachable");
    kani::cover!(cov_out, "short active output channel reachable");
}
