#!/bin/sh
# Offline setup: nothing to download or build ahead of time (a cold cargo-kani build of the
# snapshot takes < 10 s, so every check builds from scratch in its own scratch directory).
set -e
cd "$(dirname "$0")"
mkdir -p evidence replays
python3-vt gen_manifest.py >/dev/null
echo "verif setup ok"
