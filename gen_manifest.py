#!/usr/bin/env python3-vt
"""Regenerates MANIFEST.json from vlib/registry.py (claimed properties) and properties.jsonl."""
import json, os, sys
sys.path.insert(0, os.path.dirname(os.path.abspath(__file__)))
from vlib import registry

V = os.path.dirname(os.path.abspath(__file__))
props = [json.loads(l) for l in open(os.path.join(V, "properties.jsonl"))]
checks, na = [], []
for p in props:
    pid = p["id"]
    spec = registry.PROPS.get(pid)
    if spec is None or spec.get("not_applicable"):
        na.append({"property_id": pid, "reason": registry.NOT_APPLICABLE.get(pid, "not yet covered by a sound check in this framework")})
        continue
    checks.append({
        "property_id": pid,
        "quick_cmd": "./check %s --tier quick" % pid,
        "thorough_cmd": "./check %s --tier thorough" % pid,
        "evidence_file": "/verif/evidence/%s.json" % pid,
        "replay_cmd_template": "cat {path}",
        "engine": "contracts",
        "level_claimed": {"category": spec.get("level", "other"), "text": spec.get("level_text", spec.get("explanation", "")),
                          "design_ref": spec.get("design_ref", "DESIGN.md section 4 " + pid)},
        "level_note": spec.get("level_note", "; ".join(spec.get("assumptions", []) + registry.COMMON_ASSUMPTIONS)),
        "technique": spec.get("technique", "contract-based deductive verification"),
    })
m = {
    "version": 1,
    "setup_cmd": "./setup.sh",
    "hooks": {
        "guard": "kani",
        "enable": "no source hooks in /repo: checks copy /repo's working tree to a scratch directory, append '#[cfg(kani)] mod verif_*;' "
                  "declarations there and compile that copy with cargo kani (which sets cfg(kani)); Tier B/C extract function text from the same copy",
        "baseline_off_cmd": "cd /repo && cargo test --workspace --no-fail-fast --offline",
        "source_commits": [],
        "add_only": True,
    },
    "engines": [{"name": "contracts", "path": "/verif/check",
                 "serves_properties": [c["property_id"] for c in checks],
                 "kind_free_text": "contract-based deductive verification: Kani/CBMC harness contracts on the real compiled crate (Tier A), "
                                   "self-written VC generator over Z3 on mechanically extracted statements (Tier B), Verus on mechanically extracted integer slices (Tier C)"}],
    "checks": checks,
    "not_applicable": na,
    "notes": "Exit 2 from a check means undecided (lost anchor / solver limit / build failure), never a violation. Fixes made to /repo are listed in known_findings.json.",
}
json.dump(m, open(os.path.join(V, "MANIFEST.json"), "w"), indent=1)
print("checks:", [c["property_id"] for c in checks], "n/a:", [n["property_id"] for n in na])
