// F5 (C03/C04/C06): a ramped ratio change on a fixed-output resampler under-requests input (the need is derived from
// the mean ratio, the position advances by the mean of the reciprocals); the next call then asks for more than
// input_frames_max() frames and the chunk load runs past the internal buffer.
use rubato::{FastFixedOut, PolynomialDegree, Resampler};
fn main() {
    let r = std::panic::catch_unwind(|| {
        let mut r = FastFixedOut::<f64>::new(1.0, 10.0, PolynomialDegree::Cubic, 1024, 1).unwrap();
        let mut out = vec![vec![0.0f64; 1024]; 1];
        let mut step = |r: &mut FastFixedOut<f64>| -> (usize, usize) {
            let n = r.input_frames_next();
            let mx = r.input_frames_max();
            let w = vec![vec![0.1f64; n]; 1];
            r.process_into_buffer(&w, &mut out, None).unwrap();
            (n, mx)
        };
        step(&mut r);
        r.set_resample_ratio(10.0, false).unwrap();
        step(&mut r);
        r.set_resample_ratio(0.1, true).unwrap();
        step(&mut r);
        let (n, mx) = (r.input_frames_next(), r.input_frames_max());
        println!("after the ramp chunk: input_frames_next()={} input_frames_max()={}", n, mx);
        if n > mx { println!("C04 violated: next > max"); }
        step(&mut r);
    });
    if r.is_err() { println!("PANIC inside process_into_buffer (C03)"); std::process::exit(1); }
}
