// F6 (C03/C04): on a fixed-input resampler a large step up of the ratio after running at a low ratio makes the call write
// more frames than output_frames_next() advertises (the carried position lies far before the loop's start margin).
use rubato::{Resampler, SincFixedIn, SincInterpolationParameters, SincInterpolationType, WindowFunction};
fn main() {
    let r = std::panic::catch_unwind(|| {
        let p = SincInterpolationParameters { sinc_len: 64, f_cutoff: 0.95, oversampling_factor: 128, interpolation: SincInterpolationType::Cubic, window: WindowFunction::BlackmanHarris2 };
        let mut r = SincFixedIn::<f64>::new(1.0, 100.0, p, 1024, 1).unwrap();
        let w = vec![vec![0.1f64; 1024]; 1];
        r.set_resample_ratio(0.01, false).unwrap();
        for _ in 0..2 { let mut o = vec![vec![0.0f64; r.output_frames_next()]; 1]; r.process_into_buffer(&w, &mut o, None).unwrap(); }
        r.set_resample_ratio(10.0, false).unwrap();
        let adv = r.output_frames_next();
        let mut o = vec![vec![0.0f64; adv]; 1];
        println!("output_frames_next()={}", adv);
        r.process_into_buffer(&w, &mut o, None).unwrap();
    });
    if r.is_err() { println!("PANIC inside process_into_buffer with a buffer of the advertised size (C03/C04)"); std::process::exit(1); }
}
