// F11 (C03): the constructors accept oversampling_factor = 1 with Cubic / Quadratic interpolation, but the first
// processing call then asks the interpolator for sub-index 1 of 1 and panics.
use rubato::{Resampler, SincFixedIn, SincInterpolationParameters, SincInterpolationType, WindowFunction};
fn main() {
    let r = std::panic::catch_unwind(|| {
        let p = SincInterpolationParameters { sinc_len: 64, f_cutoff: 0.95, oversampling_factor: 1, interpolation: SincInterpolationType::Cubic, window: WindowFunction::Hann };
        let mut r = SincFixedIn::<f64>::new(1.0, 1.0, p, 256, 1).unwrap();
        let w = vec![vec![0.5f64; 256]; 1];
        r.process(&w, None).unwrap();
    });
    if r.is_err() { println!("PANIC in the first process() call (C03)"); std::process::exit(1); }
}
