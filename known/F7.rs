// F7 (C14): for the sinc resamplers an impulse at input frame n appears centred at output frame n*ratio, while
// output_delay() reports sinc_len*ratio/2.
use rubato::{Resampler, SincFixedIn, SincInterpolationParameters, SincInterpolationType, WindowFunction};
fn main() {
    let p = SincInterpolationParameters { sinc_len: 64, f_cutoff: 0.95, oversampling_factor: 128, interpolation: SincInterpolationType::Cubic, window: WindowFunction::BlackmanHarris2 };
    let mut r = SincFixedIn::<f64>::new(1.0, 1.0, p, 1024, 1).unwrap();
    let mut out = Vec::new();
    for k in 0..4 {
        let mut w = vec![vec![0.0f64; 1024]; 1];
        if k == 0 { w[0][500] = 1.0; }
        out.extend_from_slice(&r.process(&w, None).unwrap()[0]);
    }
    let (mut best, mut bi) = (0.0f64, 0usize);
    for (i, v) in out.iter().enumerate() { if v.abs() > best { best = v.abs(); bi = i; } }
    let d = r.output_delay();
    println!("impulse at input frame 500, ratio 1.0: output peak at {}, output_delay()={} => expected {}", bi, d, 500 + d);
    if (bi as i64 - (500 + d) as i64).abs() > 2 { std::process::exit(1); }
}
