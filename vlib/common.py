"""Shared plumbing for the /verif checks: snapshotting /repo, result records,
evidence and replay files, exit-code protocol.

Exit codes of ./check: 0 held, 1 violation (VIOLATION line printed), 2 undecided
(infrastructure problem, lost anchor, solver limit) -- never an alarm.
"""
import json
import os
import shutil
import subprocess
import sys
import time

VERIF = os.path.dirname(os.path.dirname(os.path.abspath(__file__)))
REPO = os.environ.get("VERIF_REPO", "/repo")
NCPU = int(os.environ.get("VERIF_JOBS", str(os.cpu_count() or 4)))

DISCHARGED = "discharged"
FAILED = "failed"
UNDECIDED = "undecided"


class Undecided(Exception):
    """Raised when the machinery cannot decide (lost anchor, unsupported
    construct, solver limit).  Turned into exit 2, never into a VIOLATION."""


class Obligation:
    """One named proof obligation and what happened to it on this run."""

    def __init__(self, name, backend, status, seconds=0.0, kind="complete",
                 functions=(), detail="", counterexample=None, bound=None,
                 checks=0, output=""):
        self.name = name
        self.backend = backend          # "kani/cbmc+kissat", "z3", "verus/z3", "syntactic"
        self.status = status            # DISCHARGED / FAILED / UNDECIDED
        self.seconds = seconds
        self.kind = kind                # complete | complete-real | bounded | corroboration
        self.functions = list(functions)
        self.detail = detail
        self.counterexample = counterexample
        self.bound = bound
        self.checks = checks            # number of verifier-level checks inside (CBMC properties / SMT queries)
        self.output = output            # verifier output excerpt (for replay files)

    def record(self):
        d = {"obligation": self.name, "backend": self.backend, "status": self.status,
             "kind": self.kind, "solver_s": round(self.seconds, 3), "checks": self.checks}
        if self.functions:
            d["functions_under_contract"] = self.functions
        if self.bound:
            d["bound"] = self.bound
        if self.detail:
            d["detail"] = self.detail[:600]
        return d


class Scratch:
    """A private scratch directory holding a snapshot of /repo's *working tree*."""

    def __init__(self, tag):
        base = os.environ.get("VERIF_SCRATCH", "/var/tmp")
        self.root = os.path.join(base, "rubato-verif.%s.%d" % (tag, os.getpid()))
        if os.path.exists(self.root):
            shutil.rmtree(self.root)
        os.makedirs(self.root)
        self.snap = os.path.join(self.root, "snap")
        subprocess.check_call(["rsync", "-a", "--exclude", "target", "--exclude", ".git",
                               REPO + "/", self.snap + "/"])

    def cleanup(self):
        if os.environ.get("VERIF_KEEP"):
            sys.stderr.write("[verif] keeping scratch %s\n" % self.root)
            return
        shutil.rmtree(self.root, ignore_errors=True)

    def src(self, rel):
        return os.path.join(self.snap, "src", rel)

    def read(self, rel):
        with open(self.src(rel)) as f:
            return f.read()


# address space, not resident memory: CBMC maps far more than it touches (a 3.7 GB-resident harness needed > 16 GB of address space)
MEM_LIMIT = int(os.environ.get("VERIF_MEM_GB", "40")) * (1 << 30)


def _limit():
    # address-space guard for the whole tool process tree: a runaway CBMC query then fails (-> undecided)
    # instead of exhausting the machine (there is no swap)
    import resource
    resource.setrlimit(resource.RLIMIT_AS, (MEM_LIMIT, MEM_LIMIT))


def run(cmd, cwd=None, env=None, timeout=None, stdin=None):
    """Run a command, return (rc, stdout+stderr, seconds). rc=-9 on timeout."""
    e = dict(os.environ)
    e["CARGO_NET_OFFLINE"] = "true"
    if env:
        e.update(env)
    t0 = time.time()
    try:
        p = subprocess.run(cmd, cwd=cwd, env=e, timeout=timeout, input=stdin, preexec_fn=_limit,
                           stdout=subprocess.PIPE, stderr=subprocess.STDOUT, text=True)
        return p.returncode, p.stdout, time.time() - t0
    except subprocess.TimeoutExpired as ex:
        out = ex.stdout or ""
        if isinstance(out, bytes):
            out = out.decode("utf-8", "replace")
        return -9, out, time.time() - t0


def load_known_findings():
    p = os.path.join(VERIF, "known_findings.json")
    if not os.path.exists(p):
        return {"findings": [], "fixed": []}
    with open(p) as f:
        return json.load(f)


def write_replay(prop, ob, extra=None):
    rdir = os.environ.get("VERIF_REPLAY_DIR", os.path.join(VERIF, "replays"))
    os.makedirs(rdir, exist_ok=True)
    safe = ob.name.replace("/", "_").replace(" ", "_").replace(":", "_")
    path = os.path.join(rdir, "%s-%s.json" % (prop, safe))
    d = {"property": prop, "failed_obligation": ob.name, "backend": ob.backend,
         "functions_under_contract": ob.functions, "detail": ob.detail,
         "counterexample": ob.counterexample,
         "verifier_output": ob.output[-6000:] if ob.output else ""}
    if extra:
        d.update(extra)
    with open(path, "w") as f:
        json.dump(d, f, indent=1, default=str)
    return path


def write_evidence(prop, tier, seed, level, obligations, wall, assumptions,
                   trusted_base, checker_cmd, explanation, violations, extra=None):
    edir = os.environ.get("VERIF_EVIDENCE_DIR", os.path.join(VERIF, "evidence"))
    os.makedirs(edir, exist_ok=True)
    n = len(obligations)
    nd = sum(1 for o in obligations if o.status == DISCHARGED)
    fns = sorted({f for o in obligations for f in o.functions})
    by_backend = {}
    for o in obligations:
        b = by_backend.setdefault(o.backend, {"obligations": 0, "discharged": 0, "solver_s": 0.0})
        b["obligations"] += 1
        b["discharged"] += 1 if o.status == DISCHARGED else 0
        b["solver_s"] = round(b["solver_s"] + o.seconds, 3)
    cov = {
        "obligations": n,
        "discharged": nd,
        "checker_cmd": checker_cmd,
        "trusted_base": trusted_base,
        "explanation": explanation,
        "functions_under_contract": fns,
        "by_backend": by_backend,
        "complete_obligations": sum(1 for o in obligations if o.kind == "complete"),
        "complete_real_obligations": sum(1 for o in obligations if o.kind == "complete-real"),
        "bounded_obligations": sum(1 for o in obligations if o.kind in ("bounded", "corroboration")),
        "verifier_level_checks": sum(o.checks for o in obligations),
        "solver_s_total": round(sum(o.seconds for o in obligations), 3),
        "samples": [o.record() for o in obligations],
        # generic keys (measured): every obligation is one evaluated case
        "evaluations": max(n, 1),
        "distinct_nontrivial": len({o.name for o in obligations if o.checks > 0 or o.status != UNDECIDED}),
        "rule": "one case per named obligation (harness / VC / Verus function); non-trivial = the verifier "
                "reported at least one check for it",
    }
    if extra:
        cov.update(extra)
    ev = {"property_id": prop, "tier": tier, "seed": seed, "level": level, "coverage": cov,
          "assumptions": assumptions, "wall_s": round(wall, 2), "violations": violations}
    with open(os.path.join(edir, "%s.json" % prop), "w") as f:
        json.dump(ev, f, indent=1, default=str)
    return ev
