"""Tier A: contracts written as Kani harnesses, run on the real compiled crate.

Harness files live in /verif/kani/verif_<host>[__topic].rs and are injected into a
*snapshot* of /repo as child modules of the source file <host> (so they can read
private fields and build struct literals).  Nothing is injected into /repo.

Each harness is preceded by a metadata line
  // @ob name=<obligation> props=C12,C03 tier=quick kind=complete fn=<function under contract> [feat=fft] [timeout=120] [bound="..."]
"""
import os
import re
import shlex
import shutil

from .common import (DISCHARGED, FAILED, UNDECIDED, NCPU, VERIF, Obligation, run)

HOSTS = {
    "asynchro_fast": ("asynchro_fast.rs", "asynchro_fast"),
    "asynchro_sinc": ("asynchro_sinc.rs", "asynchro_sinc"),
    "synchro": ("synchro.rs", "synchro"),
    "lib": ("lib.rs", ""),
    "interpolation": ("interpolation.rs", "interpolation"),
    "sinc_interpolator": ("sinc_interpolator/mod.rs", "sinc_interpolator"),
    "sinc": ("sinc.rs", "sinc"),
    "windows": ("windows.rs", "windows"),
}

OB_RE = re.compile(r"^\s*//\s*@ob\s+(.*)$")
FN_RE = re.compile(r"^\s*(?:pub\s+)?fn\s+([A-Za-z0-9_]+)\s*\(")


class Harness:
    def __init__(self, file, fn, meta):
        self.file = file                      # basename, e.g. verif_asynchro_fast__c12.rs
        self.fn = fn
        self.meta = meta
        self.name = meta.get("name", fn)
        self.props = meta.get("props", "").split(",")
        self.tier = meta.get("tier", "quick")
        self.kind = meta.get("kind", "complete")
        self.functions = [x for x in meta.get("fn", "").split(",") if x]
        self.feat = meta.get("feat", "nofft")
        self.timeout = int(meta.get("timeout", "150"))
        self.bound = meta.get("bound")
        self.stubbing = "stub" in meta
        host = self.host()
        modpath = HOSTS[host][1]
        modname = os.path.splitext(file)[0]
        self.pretty = "::".join([p for p in (modpath, modname, fn) if p])

    def host(self):
        base = os.path.splitext(self.file)[0][len("verif_"):]
        return base.split("__")[0]


def parse_meta(s):
    d = {}
    for tok in shlex.split(s):
        if "=" in tok:
            k, v = tok.split("=", 1)
            d[k] = v
        else:
            d[tok] = "1"
    return d


def collect(prop=None, tier="quick"):
    """All harnesses for `prop` at `tier` (thorough includes quick)."""
    out = []
    kdir = os.path.join(VERIF, "kani")
    for f in sorted(os.listdir(kdir)):
        if not (f.startswith("verif_") and f.endswith(".rs")):
            continue
        pending = None
        for line in open(os.path.join(kdir, f)):
            m = OB_RE.match(line)
            if m:
                pending = parse_meta(m.group(1))
                continue
            m = FN_RE.match(line)
            if m and pending is not None:
                h = Harness(f, m.group(1), pending)
                pending = None
                if prop is not None and prop not in h.props:
                    continue
                if tier == "quick" and h.tier != "quick":
                    continue
                if tier == "quick" and prop is not None and prop in h.meta.get("thorough_for", "").split(","):
                    continue        # quick for its main property, thorough only for the others it also serves
                if tier == "thorough" and h.tier == "fallback":
                    continue
                if tier == "fallback" and h.tier != "fallback":
                    continue
                out.append(h)
    return out


def support_files():
    kdir = os.path.join(VERIF, "kani")
    return [f for f in sorted(os.listdir(kdir)) if f.startswith("ghost_") and f.endswith(".rs")]


def inject(scratch, harnesses):
    """Copy harness files next to their host source file in the snapshot and declare them
    as cfg(kani) child modules. Returns list of injected files."""
    files = {h.file for h in harnesses}
    kdir = os.path.join(VERIF, "kani")
    for f in list(files):      # per-host shared support module (builders, dummy plans, wf predicates)
        host = os.path.splitext(f)[0][len("verif_"):].split("__")[0]
        common = "verif_%s__common.rs" % host
        if os.path.exists(os.path.join(kdir, common)):
            files.add(common)
    files = sorted(files)
    injected = []
    for f in files:
        host = os.path.splitext(f)[0][len("verif_"):].split("__")[0]
        rel, _ = HOSTS[host]
        host_path = scratch.src(rel)
        dst_dir = os.path.dirname(host_path)
        shutil.copy(os.path.join(kdir, f), os.path.join(dst_dir, f))
        modname = os.path.splitext(f)[0]
        with open(host_path, "a") as fh:
            fh.write('\n#[cfg(kani)]\n#[path = "%s"]\nmod %s;\n' % (f, modname))
        injected.append(f)
    # ghost sample types etc. are child modules of lib.rs, visible crate-wide
    for f in support_files():
        shutil.copy(os.path.join(kdir, f), os.path.join(os.path.dirname(scratch.src("lib.rs")), f))
        modname = os.path.splitext(f)[0]
        with open(scratch.src("lib.rs"), "a") as fh:
            fh.write('\n#[cfg(kani)]\n#[path = "%s"]\npub(crate) mod %s;\n' % (f, modname))
    return injected


CHECK_RE = re.compile(
    r"Check (\d+): (\S+)\n\s*- Status: (\w+)\n\s*- Description: \"(.*?)\"\n(?:\s*- Location: (.*?)\n)?", re.S)


def parse_result(text):
    checks = []
    for m in CHECK_RE.finditer(text):
        checks.append({"id": m.group(2), "status": m.group(3), "desc": m.group(4).strip('"'),
                       "loc": (m.group(5) or "").strip()})
    verdict = None
    if "VERIFICATION:- SUCCESSFUL" in text:
        verdict = "SUCCESSFUL"
    elif "VERIFICATION:- FAILED" in text:
        verdict = "FAILED"
    tm = re.search(r"Verification Time: ([0-9.]+)s", text)
    secs = float(tm.group(1)) if tm else 0.0
    timed_out = "CBMC timed out" in text
    return checks, verdict, secs, timed_out


def run_harnesses(scratch, harnesses, log=None):
    """Run the given harnesses (already injected). Returns list of Obligation."""
    results = []
    groups = {}
    for h in harnesses:
        groups.setdefault((h.feat, h.stubbing), []).append(h)
    # kani-driver keeps every harness's output in its own address space: with ~20 long harnesses in one invocation the driver itself
    # ran into the address-space limit ("memory allocation of 256 bytes failed") and the remaining harnesses were lost -> batches
    BATCH = int(os.environ.get("VERIF_KANI_BATCH", "8"))
    batches = []
    for key, hs_all in sorted(groups.items()):
        hs_all = sorted(hs_all, key=lambda h: -h.timeout)
        for i in range(0, len(hs_all), BATCH):
            batches.append((key, hs_all[i:i + BATCH]))
    for (feat, stubbing), hs in batches:
        tgt = os.path.join(scratch.root, "kani-target-" + feat)
        outdir = os.path.join(scratch.snap, "result_output_dir")
        shutil.rmtree(outdir, ignore_errors=True)
        tmo = max(h.timeout for h in hs)
        cmd = ["cargo", "kani"]
        if feat == "nofft":
            cmd.append("--no-default-features")
        for h in hs:
            cmd += ["--harness", h.pretty]
        cmd += ["--exact", "-j", str(min(NCPU, len(hs))), "--output-format", "terse",
                "--output-into-files", "-Z", "unstable-options", "--harness-timeout", "%ds" % tmo]
        if stubbing:
            cmd += ["-Z", "stubbing"]
        rc, out, secs = run(cmd, cwd=scratch.snap, env={"CARGO_TARGET_DIR": tgt},
                            timeout=tmo * (1 + len(hs) // max(1, NCPU)) + 900)
        if log is not None:
            log.append("$ " + " ".join(cmd) + "\n" + out[-4000:])
        build_failed = ("error: could not compile" in out) or ("error[E" in out) or (rc == -9)
        for h in hs:
            path = os.path.join(outdir, h.pretty)
            backend = "kani-0.68/cbmc-6.11+" + ("kissat" if "kissat" in open(os.path.join(VERIF, "kani", h.file)).read() else "cadical")
            if build_failed or not os.path.exists(path):
                results.append(Obligation(h.name, backend, UNDECIDED, 0.0, h.kind, h.functions,
                                          detail="harness did not run (build failure or missing result file): "
                                                 + out[-1500:], bound=h.bound, output=out[-3000:]))
                continue
            text = open(path).read()
            checks, verdict, s, timed_out = parse_result(text)
            failed = [c for c in checks if c["status"] == "FAILURE"]
            unwind_fail = [c for c in failed if "unwinding assertion" in c["desc"]]
            real_fail = [c for c in failed if c not in unwind_fail]
            covers_bad = [c for c in checks if c["status"] in ("UNSATISFIABLE", "UNREACHABLE")
                          and ".cover." in c["id"]]
            undet = [c for c in checks if c["status"] == "UNDETERMINED"]
            if timed_out:
                st, det = UNDECIDED, "CBMC timed out after %ds" % h.timeout
            elif h.meta.get("expect") == "panic":
                # guard harness (#[kani::should_panic]): the deliberate violation must be caught by the stub under test;
                # if it is not, the harnesses relying on the stub are vacuous -> undecided, never an alarm
                if verdict == "SUCCESSFUL" and real_fail:
                    st, det, real_fail = DISCHARGED, "", []
                else:
                    st, det, real_fail = UNDECIDED, "vacuity guard: the expected panic did not occur: " + text[-400:], []
            elif real_fail:
                st = FAILED
                det = "; ".join("%s [%s] at %s" % (c["desc"], c["id"], c["loc"]) for c in real_fail[:6])
            elif unwind_fail:
                st, det = UNDECIDED, "unwinding bound too small: " + unwind_fail[0]["loc"]
            elif covers_bad:
                st, det = UNDECIDED, "vacuity guard: cover not satisfied: " + "; ".join(
                    c["desc"] + " " + c["loc"] for c in covers_bad[:4])
            elif verdict == "SUCCESSFUL" and checks:
                st, det = DISCHARGED, ""
            elif verdict == "FAILED" and undet and not failed:
                st, det = UNDECIDED, "undetermined checks: " + undet[0]["desc"]
            else:
                st, det = UNDECIDED, "could not interpret Kani output: " + text[-800:]
            ob = Obligation(h.name, backend, st, s, h.kind, h.functions, det, bound=h.bound,
                            checks=len(checks), output=text[-5000:] if st != DISCHARGED else "")
            ob.harness = h
            ob.failed_checks = real_fail
            ob.covers = sum(1 for c in checks if ".cover." in c["id"] and c["status"] == "SATISFIED")
            results.append(ob)
    return results


def counterexample(scratch, ob):
    """Re-run a failed harness with concrete playback; returns (text, native_replay_result)."""
    h = ob.harness
    tgt = os.path.join(scratch.root, "kani-target-" + h.feat)
    cmd = ["cargo", "kani"] + (["--no-default-features"] if h.feat == "nofft" else []) + \
          ["--harness", h.pretty, "--exact", "-Z", "concrete-playback", "--concrete-playback=inplace",
           "-Z", "unstable-options", "--harness-timeout", "%ds" % (h.timeout * 2)]
    if h.stubbing:
        cmd += ["-Z", "stubbing"]
    rc, out, secs = run(cmd, cwd=scratch.snap, env={"CARGO_TARGET_DIR": tgt}, timeout=h.timeout * 2 + 600)
    # the generated unit test is written into the harness file
    host_rel, _ = HOSTS[h.host()]
    hpath = os.path.join(os.path.dirname(scratch.src(host_rel)), h.file)
    src = open(hpath).read()
    m = re.search(r"(#\[test\]\s*fn (kani_concrete_playback_\w+)\(\) \{.*?\n\})", src, re.S)
    if not m:
        return None, "no concrete playback test generated: " + out[-1500:]
    test_src, test_name = m.group(1), m.group(2)
    cmd2 = ["cargo", "kani", "playback", "-Z", "concrete-playback"] + \
           (["--no-default-features"] if h.feat == "nofft" else []) + ["--", test_name]
    rc2, out2, secs2 = run(cmd2, cwd=scratch.snap,
                           env={"CARGO_TARGET_DIR": os.path.join(scratch.root, "playback-target")}, timeout=900)
    verdict = "reproduced" if ("panicked at" in out2 and "test result: FAILED" in out2) else (
        "not-reproduced" if "test result: ok" in out2 else "playback-inconclusive")
    return test_src, "%s: native playback of %s on the real code: %s\n%s" % (
        verdict, test_name, " ".join(cmd2), out2[-2500:])
