"""Tier B: loop cutting by statement extraction + VC generation for the four asynchronous resamplers
(DESIGN.md 2.3).  For each `match` arm of process_into_buffer the real statements of /repo's current source
are executed symbolically (vlib/smt.py) around an explicit loop invariant:

   base:  wf(fields) /\\ [[setup]]                           =>  INV(locals)
   step:  INV /\\ guard /\\ [[stepping prefix]]               =>  every index/range/cast in the body is in bounds,
                                                               output index < validated length, INV(locals')
   exit:  INV /\\ not guard /\\ [[post-loop block]]           =>  wf'(fields') /\\ postconditions (counts, position)

What the extraction keeps: every statement of the function outside the channel loops, the loop headers, the
stepping prefix, and every index / range expression of the channel-loop bodies.  What it drops: the channel
`for`, the `if *active`, `unsafe`, the interp_* / get_sinc_interpolated *calls* (their index arguments are kept as
obligations), debug_assert!, trace!.  Anything else is Undecided (exit 2).

Contracts (wf, INV, postconditions, carve-outs) are written here, from the property statements; see DESIGN.md 3/4/7.
"""
import time

import z3

from . import rsparse as rp, smt, syn
from .common import DISCHARGED, FAILED, UNDECIDED, Obligation, Undecided
from .smt import Val, zabs, zceil, zfloor

R = z3.RealVal


class Kind:
    def __init__(self, T, file, fixed_in, sinc):
        self.T, self.file, self.fixed_in, self.sinc = T, file, fixed_in, sinc


KINDS = {
    "FastFixedIn": Kind("FastFixedIn", "asynchro_fast.rs", True, False),
    "FastFixedOut": Kind("FastFixedOut", "asynchro_fast.rs", False, False),
    "SincFixedIn": Kind("SincFixedIn", "asynchro_sinc.rs", True, True),
    "SincFixedOut": Kind("SincFixedOut", "asynchro_sinc.rs", False, True),
}

# numeric domain of the Tier B obligations (listed as an assumption in every evidence file)
CHUNK_MAX = 2 ** 16
RATIO_LO = z3.Q(1, 64)
RATIO_HI = R(64)
SINC_MAX = 4096


class Structure:
    """process_into_buffer of one type, cut into its parts."""

    def __init__(self, kind, src):
        self.kind = kind
        self.src = src
        impl = ["Resampler", "for " + kind.T + "<"]
        self.impl = impl
        sig, body, l0, text = rp.find_fn(src, "process_into_buffer", impl)
        self.body = body
        prefix, callst, call, suffix = syn.split_at_call(body, "validate_buffers")
        self.prefix, self.call = prefix, call
        self.setup = []         # straight-line statements between validation and the match (lets, field assignments)
        self.moves = []         # data-movement `for` statements before the match
        self.seq = []           # both, in program order: ("stmt", st) | ("move", for-node)
        self.match = None
        self.post = []
        self.tail = None
        seen_match = False
        for st in suffix:
            if st[0] == "expr" and rp.strip_paren(st[1])[0] == "match":
                if seen_match:
                    raise Undecided("two match statements in process_into_buffer of %s" % kind.T)
                self.match = rp.strip_paren(st[1])
                seen_match = True
                continue
            e = rp.strip_paren(st[1]) if st[0] == "expr" else None
            if not seen_match:
                if e is not None and e[0] == "for":
                    self.moves.append(e)
                    self.seq.append(("move", e))
                elif e is not None and e[0] == "if" and any(n[0] == "for" for n in rp.walk(e[2])) and e[3] is None:
                    # data movement under a condition: the loops are checked under the condition, and skipping them must
                    # leave the buffer-window invariant intact (nothing was loaded before / nothing is consumed now)
                    items_ = list(e[2][1]) + ([("expr", e[2][2], False, 0)] if e[2][2] is not None else [])
                    fors = [rp.strip_paren(x[1]) for x in items_ if x[0] == "expr" and rp.strip_paren(x[1])[0] == "for"]
                    rest = [x for x in items_ if not (x[0] == "expr" and rp.strip_paren(x[1])[0] == "for")]
                    self.seq.append(("cond-move", e[1], fors, ("if", e[1], ("block", rest, None), None, 0)))
                elif e is not None and e[0] == "macro":
                    continue
                else:
                    self.setup.append(st)
                    self.seq.append(("stmt", st))
            else:
                if st is suffix[-1] and st[0] == "expr" and not st[2]:
                    self.tail = e
                elif e is not None and e[0] == "macro":
                    continue
                else:
                    self.post.append(st)
        if self.match is None:
            raise Undecided("anchor lost: no `match self.interpolation` in %s" % kind.T)
        if self.tail is None:
            raise Undecided("anchor lost: no tail expression in process_into_buffer of %s" % kind.T)
        if rp.show(self.match[1]) != "self.interpolation":
            raise Undecided("match scrutinee is %s" % rp.show(self.match[1]))
        self.arms = []
        for (pat, guard, armbody) in self.match[2]:
            name = pat[1].replace(" ", "").split("::")[-1]
            self.arms.append(Arm(kind, name, armbody))


class Arm:
    """One match arm: optional local declarations, then exactly one loop."""

    def __init__(self, kind, name, body):
        self.name = name
        if body[0] != "block":
            raise Undecided("match arm %s is not a block" % name)
        self.decls = []
        self.loop = None
        items = list(body[1]) + ([("expr", body[2], False, 0)] if body[2] is not None else [])
        for st in items:
            e = rp.strip_paren(st[1]) if st[0] == "expr" else None
            if e is not None and e[0] in ("while", "for"):
                if self.loop is not None:
                    raise Undecided("two loops in arm %s" % name)
                self.loop = e
            elif st[0] == "let":
                self.decls.append(st)
            else:
                raise Undecided("unexpected statement in arm %s: %s" % (name, rp.show(st)[:80]))
        if self.loop is None:
            raise Undecided("no loop in arm %s" % name)
        lb = self.loop[2] if self.loop[0] == "while" else self.loop[3]
        self.stepping = []      # statements before the channel loop
        self.chan_loop = None
        self.after = []         # statements after the channel loop (n += 1)
        for st in lb[1] + ([("expr", lb[2], False, 0)] if lb[2] is not None else []):
            e = rp.strip_paren(st[1]) if st[0] == "expr" else None
            if e is not None and e[0] == "for":
                if self.chan_loop is not None:
                    raise Undecided("two inner loops in arm %s" % name)
                self.chan_loop = e
            elif self.chan_loop is None:
                self.stepping.append(st)
            else:
                self.after.append(st)
        if self.chan_loop is None:
            raise Undecided("no channel loop in arm %s" % name)
        it = rp.show(self.chan_loop[2])
        if it != "self.channel_mask.iter().enumerate()":
            raise Undecided("inner loop of arm %s iterates over %s" % (name, it))
        # accesses inside the channel loop
        self.accesses = collect_accesses(self.chan_loop[3])


def collect_accesses(node):
    """Index expressions of the channel-loop body: list of (kind, base_text, index_expr_or_range, node)."""
    out = []
    allowed_calls = {"interp_septic", "interp_quintic", "interp_cubic", "interp_lin", "interp_quad", "T::coerce"}
    for n in rp.walk(node):
        k = n[0]
        if k == "mcall" and n[2] in ("get_unchecked", "get_unchecked_mut"):
            base = rp.show(n[1])
            out.append(("unchecked", base, n[3][0], n))
        elif k == "index":
            base = rp.show(n[1])
            out.append(("index", base, n[2], n))
        elif k == "mcall" and n[2] == "get_sinc_interpolated":
            out.append(("sinc", rp.show(n[1]), (n[3][1], n[3][2]), n))
        elif k == "assign":
            pl = syn.place_of(n[2])
            if pl and pl.startswith("self.") and pl not in ("self.buffer",):
                raise Undecided("control state %s assigned inside the channel loop" % pl)
        elif k == "call":
            fn = rp.show(n[1])
            if fn not in allowed_calls:
                raise Undecided("unexpected call %s inside the channel loop" % fn)
        elif k == "macro" and n[1] not in ("debug_assert", "trace", "t"):
            raise Undecided("unexpected macro %s! inside the channel loop" % n[1])
        elif k in ("while", "loop", "return", "break", "continue", "try"):
            raise Undecided("control flow (%s) inside the channel loop" % k)
    return out


# ------------------------------------------------------------------------------------------------
# Symbolic state and contracts

class State:
    """Pre-state of one operation: fields as Z3 variables + the ghost quantities of the representation invariant."""

    def __init__(self, kind, src, tag="", ramp=False, interp_src=None):
        self.kind = kind
        k = kind
        self.env = smt.Env("slack", consts={
            "POLYNOMIAL_LEN_U": Val(z3.IntVal(8), "usize"), "POLYNOMIAL_LEN_I": Val(z3.IntVal(8), "isize")})
        e = self.env
        fields = syn.struct_fields(src, k.T)
        self.fields = fields
        for f, ty in fields.items():
            t = ty.replace(" ", "")
            if t in ("usize", "f64", "f32", "isize", "bool"):
                e.declare("self." + f, t)
        if not ramp:
            # a call that is not a ramp: current and target ratio are the same value (same Z3 term, so that
            # identical float expressions over them are identical terms)
            e.vars["self.target_ratio"] = e.vars["self.resample_ratio"]
        pre = {k_[5:]: val_.t for k_, val_ in e.vars.items() if k_.startswith("self.")}
        self.pre = pre
        v = lambda n: pre[n]          # PRE-state value of a field (the env is mutated by symbolic execution)
        self.v = v
        # configuration ghosts
        self.lo = z3.Real("cfg_lo" + tag)          # original / max
        self.hi = z3.Real("cfg_hi" + tag)          # original * max
        self.A = z3.Int("cfg_A" + tag)             # an integer >= 1/lo  (carve-out parameter)
        self.tp = z3.Real("ghost_prev_ratio" + tag)  # ratio in effect when last_index was produced
        self.buflen = z3.Int("buffer_len" + tag)
        self.out_len = z3.Int("wave_out_len" + tag)
        self.in_len = z3.Int("wave_in_len" + tag)
        if k.sinc:
            self.L = z3.Int("sinc_len" + tag)
            self.factor = z3.Int("nbr_sincs" + tag)
            e.opaque["self.interpolator.len()"] = Val(self.L, "usize")
            e.opaque["self.interpolator.nbr_sincs()"] = Val(self.factor, "usize")
        else:
            self.L = z3.IntVal(8)
            self.factor = None
        e.opaque["self.buffer[chan].len()"] = Val(self.buflen, "usize")
        self.maxchunk = v("max_chunk_size") if "max_chunk_size" in fields else v("chunk_size")
        if "current_buffer_fill" in fields:
            self.fill = v("current_buffer_fill")
            self.fill_is_ghost = False
        else:
            # no field records how many frames the previous call loaded: a ghost does (for the Fast types it equals
            # chunk_size, which never changes after construction - C12 config-frame obligation)
            self.fill = z3.Int("ghost_loaded_by_previous_call" + tag)
            self.fill_is_ghost = True

    # ---- representation invariant (DESIGN.md section 3), split into named clauses
    def wf_cfg(self):
        v, L = self.v, self.L
        c = [self.lo > 0, self.lo <= self.hi, self.lo >= RATIO_LO, self.hi <= RATIO_HI,
             v("resample_ratio_original") >= self.lo, v("resample_ratio_original") <= self.hi,
             v("max_relative_ratio") >= 1,
             v("resample_ratio_original") == self.lo * v("max_relative_ratio"),
             self.hi == v("resample_ratio_original") * v("max_relative_ratio"),
             v("chunk_size") >= 1, v("chunk_size") <= self.maxchunk, self.maxchunk <= CHUNK_MAX,
             v("nbr_channels") >= 1]
        if self.kind.sinc:
            c += [L >= 8, L <= SINC_MAX, L % 8 == 0, self.factor >= 1, self.factor <= 2 ** 16]
        return c

    def wf_ratio(self):
        v = self.v
        one = R(1)
        s = z3.Q(1, 2 ** 40)     # ulp slack of the relative setter (DESIGN.md F1 fix)
        return [v("resample_ratio") >= self.lo * (one - s), v("resample_ratio") <= self.hi * (one + s),
                v("target_ratio") >= self.lo * (one - s), v("target_ratio") <= self.hi * (one + s)]

    def witness(self):
        """a concrete configuration that helps Z3 find a model for the vacuity guards"""
        v = self.v
        w = [self.lo == 1, self.hi == 1, v("resample_ratio_original") == 1, v("max_relative_ratio") == 1, v("resample_ratio") == 1,
             v("chunk_size") == 64, self.maxchunk == 64, self.A == 2, self.tp == 1]
        if self.kind.sinc:
            w += [self.L == 16, self.factor == 128]
        return w

    def wf_fill(self):
        L = self.L
        c = [self.fill >= 0, self.fill + 2 * L <= self.buflen]
        if self.fill_is_ghost and not self.kind.sinc:
            c.append(self.fill == self.v("chunk_size"))
        if self.kind.fixed_in:
            c += [self.fill <= self.maxchunk, self.buflen == self.maxchunk + 2 * L]
        return c

    def wf_pos_in(self):
        """fixed-input: the carried position was produced by a call running at ratio tp (or is the initial one)"""
        v, L = self.v, self.L
        return [self.tp >= self.lo * (R(1) - z3.Q(1, 2 ** 40)), self.tp <= self.hi * (R(1) + z3.Q(1, 2 ** 40)),
                v("last_index") >= -(z3.ToReal(L) + 1) - cpos(self.tp) - z3.Q(1, 2 ** 20),
                v("last_index") <= -z3.ToReal(L) / 2]

    def carve_in(self):
        """Carve-out C_in (DESIGN.md 7, F6): the configured ratio range is narrow enough that (i) the carried position can
        never point before the pre-roll and (ii) the frame estimate chunk*ratio+10 covers the frames produced:
        with A an integer >= (1/lo)(1+2^-30):  A <= L-4  and  (A-1)*hi <= 7  (one frame of the 10-frame margin is left
        for the rounding of the estimate itself)."""
        return [self.A >= 1, z3.ToReal(self.A) * self.lo * (R(1) - z3.Q(1, 2 ** 30)) >= 1, self.A <= self.L - 4,
                z3.ToReal(self.A - 1) * self.hi <= 7]


def install_helpers(env, scratch_read, kind, src):
    """self-method inlining and the get_nearest_time* helpers (bodies taken from the snapshot)."""
    inherent = ["impl<T> " + kind.T + "<"]
    trait = ["Resampler", "for " + kind.T + "<"]

    def mk_method(name):
        def call(e, recv, args, node):
            for impl in (inherent, trait):
                try:
                    sig, body, l0, _ = rp.find_fn(src, name, impl)
                    break
                except rp.ParseError:
                    continue
            else:
                raise Undecided("cannot inline self.%s()" % name)
            params = [p for p in __import__("re").findall(r"([a-z_][a-z0-9_]*)\s*:", sig.split("(", 1)[1]) if p != "self"]
            saved = {}
            for p, a in zip(params, args):
                saved[p] = e.vars.get(p)
                e.vars[p] = e.ev(a)
            for st in body[1]:
                e.exec_stmt(st)
            res = None
            if body[2] is not None:
                tail = rp.strip_paren(body[2])
                if tail[0] in ("if", "assign", "for", "block"):
                    e.exec_expr(tail)
                else:
                    res = e.ev(tail)
            for p in params:
                if saved[p] is None:
                    e.vars.pop(p, None)
                else:
                    e.vars[p] = saved[p]
            return res
        return call

    for m in ("update_needed_len", "update_ratio", "calc_needed_len"):
        env.methods[m] = mk_method(m)

    if kind.sinc:
        # Modular: the callee contracts proved bit-precisely in Tier A (kani/verif_interpolation__nearest.rs) are used
        # here; their preconditions (|t| <= 2^20, factor range) become obligations at the call site.
        def mk_nearest(name, npts, lo_off, fmin, back):
            def call(e, args, node):
                t = e.ev(args[0])
                f = e.ev(args[1])
                e.side_cond("%s precondition: |t| <= 2^20" % name, z3.And(t.t >= -(2 ** 20), t.t <= 2 ** 20), node)
                e.side_cond("%s precondition: %d <= factor <= 65536" % (name, fmin), z3.And(f.t >= fmin, f.t <= 65536), node)
                fl = zfloor(t.t)
                pts = []
                for i in range(max(npts, 1)):
                    ix = e.fresh("near_index", "int")
                    sb = e.fresh("near_sub", "int")
                    e.define(ix, z3.And(ix >= fl + lo_off, ix <= fl + 1))
                    e.define(sb, z3.And(sb >= 0, sb < f.t))
                    # at an integral position no point lies past floor(t) (proved bit-precisely in Tier A for factor >= back)
                    e.define(ix, z3.Implies(z3.And(t.t == z3.ToReal(fl), f.t >= back), ix <= fl))
                    pts.append(Val([Val(ix, "isize"), Val(sb, "isize")], "tuple"))
                if npts:
                    tgt = rp.strip_paren(args[2])
                    while tgt[0] == "unary":
                        tgt = rp.strip_paren(tgt[2])
                    e.vars[rp.show(tgt)] = Val(pts, "tuple")
                    return None
                return pts[0]
            return call
        env.helpers["get_nearest_times_4"] = mk_nearest("get_nearest_times_4", 4, -1, 2, 3)
        env.helpers["get_nearest_times_3"] = mk_nearest("get_nearest_times_3", 3, 0, 2, 3)
        env.helpers["get_nearest_times_2"] = mk_nearest("get_nearest_times_2", 2, 0, 1, 2)
        env.helpers["get_nearest_time"] = mk_nearest("get_nearest_time", 0, 0, 1, 1)
    env.helpers["T::zero"] = lambda e, args, node: Val(R(0), "f64")

    def resolve(name):
        """free functions of the same file are inlined (parameters bound by position)"""
        if "::" in name or not name.isidentifier():
            return None
        try:
            sig, body, l0, _ = rp.find_fn(src, name, None)
        except rp.ParseError:
            return None
        if "self" in sig.split("(", 1)[1].split(")")[0]:
            return None
        import re as _re
        params = _re.findall(r"([a-z_][a-z0-9_]*)\s*:", sig.split("(", 1)[1])
        return params, body
    env.resolve_fn = resolve


# ------------------------------------------------------------------------------------------------
class VC:
    """A named verification condition: assumptions + list of (label, goal)."""

    def __init__(self, name, fn, kind="complete-real"):
        self.name, self.fn, self.kind = name, fn, kind
        self.assumptions = []
        self.goals = []       # (label, z3 bool, extra path assumptions)
        self.lemmas = []      # (label, z3 bool): proved in order, each then available to what follows

    def assume(self, *cs):
        for c in cs:
            if isinstance(c, (list, tuple)):
                self.assumptions.extend(c)
            else:
                self.assumptions.append(c)

    def goal(self, label, g, path=()):
        self.goals.append((label, g, list(path)))

    def lemma(self, label, g, using=None):
        """`using`: prove from these premises only (plus earlier lemmas) - a subset of the assumptions, like
        `by (nonlinear_arith) requires ..`; keeps the query small"""
        self.lemmas.append((label, g, using))

    def take_side(self, env, start=0):
        """turn the side conditions collected by the symbolic executor (casts, overflow, division) into goals"""
        for (label, cond, path, ln) in env.side[start:]:
            self.goals.append(("%s%s" % (label, " (line %d)" % ln if ln else ""), cond, path))
        return len(env.side)

    def discharge(self, env, timeout_ms=20000):
        """-> list of Obligation (one per goal; the conjunction is tried first)"""
        t0 = time.time()
        defs = getattr(env, "_defs", {})
        all_terms = [g for (_, g, _) in self.goals] + [g for (_, g, _) in self.lemmas] + [x for (_, _, p) in self.goals for x in p]
        base = smt.cone(self.assumptions + env.assumes, defs, all_terms)
        obs = []
        backend = "vcgen/z3-%s" % z3.get_version_string()
        # vacuity guard: the precondition (wf, invariant, guard, carve-out, facts) must be satisfiable
        t1 = time.time()
        rv = z3.unknown
        for hint in (getattr(self, "witness", None), None):
            if hint is None and rv == z3.sat:
                break
            sv = z3.Solver()
            sv.set("timeout", 10000)
            for a in base:
                sv.add(a)
            if hint:
                for h_ in hint:
                    sv.add(h_)
            rv = sv.check()
            if rv == z3.sat:
                break
            if hint is not None and rv == z3.unsat:
                rv = z3.unknown     # the hinted witness does not fit this VC; try without hints
                continue
        if rv == z3.unsat:
            return [Obligation("%s :: vacuity guard" % self.name, backend, UNDECIDED, time.time() - t1, self.kind, [self.fn], checks=1,
                               detail="the assumptions of this VC are contradictory - nothing would be proved")]
        self.vacuity = str(rv)
        obs.append(Obligation("%s :: vacuity guard: precondition satisfiable (%s)" % (self.name, rv), backend, DISCHARGED, time.time() - t1,
                              "corroboration", [self.fn], checks=1))
        proved = []
        for (label, g, using) in self.lemmas:
            prem = base + proved if using is None else smt.cone(list(using), defs, [g]) + proved
            r, m, s1 = smt.check_valid(prem, g, timeout_ms)
            if r != "valid" and using is not None:
                r, m, s1 = smt.check_valid(base + proved, g, timeout_ms)
            if r == "valid":
                obs.append(Obligation("%s :: lemma: %s" % (self.name, label), backend, DISCHARGED, s1, self.kind, [self.fn], checks=1))
                proved.append(g)
                base = base + [g]
            elif r == "invalid":
                md = smt.model_dict(m, 80)
                obs.append(Obligation("%s :: lemma: %s" % (self.name, label), backend, FAILED, s1, self.kind, [self.fn], checks=1,
                                      detail="lemma `%s` does not follow; Z3 model: %s" % (label, {k: md[k] for k in sorted(md) if "!" not in k}),
                                      counterexample=md, output=str(m)[:3000]))
            else:
                obs.append(Obligation("%s :: lemma: %s" % (self.name, label), backend, UNDECIDED, s1, self.kind, [self.fn], checks=1,
                                      detail="Z3 returned unknown on lemma (timeout %d ms)" % timeout_ms))
        if not self.goals:
            return obs
        conj = z3.And([z3.Implies(z3.And(p) if p else z3.BoolVal(True), g) for (_, g, p) in self.goals])
        res, model, secs = smt.check_valid(base, conj, timeout_ms)
        if res == "valid":
            per = secs / len(self.goals)
            for (label, g, p) in self.goals:
                obs.append(Obligation("%s :: %s" % (self.name, label), "vcgen/z3-%s" % z3.get_version_string(), DISCHARGED, per,
                                      self.kind, [self.fn], checks=1))
            return obs
        for (label, g, p) in self.goals:
            r, m, s1 = smt.check_valid(base + p, g, timeout_ms)
            if r == "valid":
                obs.append(Obligation("%s :: %s" % (self.name, label), "vcgen/z3-%s" % z3.get_version_string(), DISCHARGED, s1,
                                      self.kind, [self.fn], checks=1))
            elif r == "invalid":
                md = smt.model_dict(m, 80)
                ob = Obligation("%s :: %s" % (self.name, label), "vcgen/z3-%s" % z3.get_version_string(), FAILED, s1, self.kind,
                                [self.fn], checks=1, detail="obligation `%s` does not follow; Z3 model (pre-state satisfying the contract's "
                                "precondition): %s" % (label, {k: md[k] for k in sorted(md) if not k.startswith("rnd") and not k.startswith("cvt")}),
                                counterexample=md, output=str(m)[:3000])
                obs.append(ob)
            else:
                # unknown: look for a counterexample inside a concrete configuration (a model of the assumptions and the
                # negated goal is a genuine counterexample of the VC whatever guided the search)
                m2 = None
                wit = getattr(self, "witness", None)
                if wit:
                    s2 = z3.Solver()
                    s2.set("timeout", timeout_ms)
                    for a in base + p + list(wit):
                        s2.add(a)
                    s2.add(z3.Not(g))
                    if s2.check() == z3.sat:
                        m2 = s2.model()
                if m2 is not None:
                    md = smt.model_dict(m2, 80)
                    obs.append(Obligation("%s :: %s" % (self.name, label), "vcgen/z3-%s" % z3.get_version_string(), FAILED, s1, self.kind,
                                          [self.fn], checks=1, detail="obligation `%s` does not follow; Z3 model found inside a concrete configuration: %s" % (
                                              label, {k: md[k] for k in sorted(md) if "!" not in k}), counterexample=md, output=str(m2)[:3000]))
                else:
                    obs.append(Obligation("%s :: %s" % (self.name, label), "vcgen/z3-%s" % z3.get_version_string(), UNDECIDED, s1, self.kind,
                                          [self.fn], checks=1, detail="Z3 returned unknown (timeout %d ms)" % timeout_ms))
        return obs


# ------------------------------------------------------------------------------------------------
# process_into_buffer of a call that is not a ramp

def cpos(t):
    """ceil(1/t) as the code may see it: the quotient is rounded before the ceiling is taken"""
    return z3.ToReal(zceil((1 / t) * (R(1) + z3.Q(1, 2 ** 45))))


E_STEP = z3.Q(1, 2 ** 34)      # absolute rounding error bound of one `idx += t_ratio` (|idx| <= 2^18: 2^-53 * 2^19 = 2^-34)


def assigned_names(stmts):
    out = set()
    for st in stmts:
        for n in rp.walk(st):
            if n[0] == "assign":
                l = rp.strip_paren(n[2])
                if l[0] == "path" and len(l[1]) == 1:
                    out.add(l[1][0])
    return out


def move_goals(vc, env, st, fornode, kind):
    """Range obligations of the data-movement loops before the match (history shift and chunk load)."""
    L2 = 2 * st.L
    for n in rp.walk(fornode[3]):
        if n[0] == "mcall" and n[2] == "copy_within":
            rng = rp.strip_paren(n[3][0])
            dst = env.ev(n[3][1])
            if rng[0] != "range" or rng[1] is None or rng[2] is None:
                raise Undecided("copy_within with an open range")
            a, b = env.ev(rng[1]), env.ev(rng[2])
            vc.goal("history shift `%s`: source range inside the buffer" % rp.show(n)[:70], z3.And(a.t >= 0, a.t <= b.t, b.t <= st.buflen))
            vc.goal("history shift: destination fits", z3.And(dst.t >= 0, dst.t + (b.t - a.t) <= st.buflen))
            # C05/C06: what is kept is exactly the last 2L frames of what was loaded (fill_old .. fill_old + 2L)
            vc.goal("C05 history shift keeps the last 2*L loaded frames: copy_within(fill..fill+2L, 0)",
                    z3.And(a.t == st.fill_at_entry, b.t == st.fill_at_entry + L2, dst.t == 0))
        if n[0] == "mcall" and n[2] == "copy_from_slice":
            dstn = rp.strip_paren(n[1])
            srcn = rp.strip_paren(n[3][0])
            while srcn[0] == "unary":
                srcn = rp.strip_paren(srcn[2])
            if dstn[0] != "index" or rp.strip_paren(dstn[2])[0] != "range" or srcn[0] != "index" or rp.strip_paren(srcn[2])[0] != "range":
                raise Undecided("chunk load is not slice-to-slice: %s" % rp.show(n)[:80])
            dr, sr = rp.strip_paren(dstn[2]), rp.strip_paren(srcn[2])
            da, db = env.ev(dr[1]), env.ev(dr[2])
            sa = env.ev(sr[1]).t if sr[1] is not None else z3.IntVal(0)
            sb = env.ev(sr[2])
            vc.goal("chunk load: destination range inside the buffer", z3.And(da.t >= 0, da.t <= db.t, db.t <= st.buflen))
            vc.goal("chunk load: source range inside the validated input", z3.And(sa >= 0, sa <= sb.t, sb.t <= st.in_len))
            vc.goal("chunk load: equal lengths (copy_from_slice would panic otherwise)", db.t - da.t == sb.t - sa)
            vc.goal("C05 chunk load appends the consumed frames right after the 2*L history", z3.And(da.t == L2, sa == 0, sb.t == st.consumed))


def access_goals(vc, env, st, arm, fill_now, count_var):
    """Index obligations of the channel-loop body, evaluated after the stepping prefix."""
    L = st.L
    for (akind, base, idx, node) in arm.accesses:
        if akind in ("unchecked", "index"):
            itxt = rp.show(idx)
            if itxt == "chan":
                continue
            if "wave_out" in base:
                v = env.ev(idx)
                vc.goal("output write index `%s` < validated output length" % itxt, z3.And(v.t >= 0, v.t < st.out_len))
                if count_var is not None:
                    vc.goal("output frames are written consecutively: index is the frame counter", v.t == count_var)
                continue
            if "buffer" in base:
                r = rp.strip_paren(idx)
                if r[0] == "range":
                    a, b = env.ev(r[1]), env.ev(r[2])
                    vc.goal("unchecked read `%s`: inside the buffer" % itxt[:60], z3.And(a.t >= 0, a.t <= b.t, b.t <= st.buflen))
                    vc.goal("C06 read `%s`: inside the part of the buffer filled for this call (nothing stale)" % itxt[:40],
                            b.t <= 2 * L + fill_now)
                    vc.window = (a.t, b.t)
                else:
                    a = env.ev(idx)
                    vc.goal("unchecked read `%s`: inside the buffer" % itxt[:60], z3.And(a.t >= 0, a.t < st.buflen))
                    vc.goal("C06 read `%s`: inside the part of the buffer filled for this call" % itxt[:40], a.t < 2 * L + fill_now)
                    vc.window = (a.t, a.t + 1)
                continue
            raise Undecided("index into %s not understood" % base)
        if akind == "sinc":
            iexp, sexp = idx
            pts = env.vars.get("nearest")
            if pts is None:
                raise Undecided("anchor lost: no `nearest` in sinc arm")
            plist = pts.t if (pts.ty == "tuple" and pts.t and pts.t[0].ty == "tuple") else [pts]
            uses_n = any(x[0] == "path" and x[1] == ["n"] for x in rp.walk(iexp))
            saved = env.vars.get("n")
            for j, p in enumerate(plist):
                if uses_n:
                    env.vars["n"] = p
                iv, sv = env.ev(iexp), env.ev(sexp)
                vc.goal("get_sinc_interpolated precondition (point %d): index + sinc_len < buffer length" % j, iv.t + L < st.buflen)
                vc.goal("get_sinc_interpolated precondition (point %d): subindex < nbr_sincs" % j, z3.And(sv.t >= 0, sv.t < st.factor))
                vc.goal("C06 sinc window (point %d) ends inside the filled part of the buffer (+1 frame, see DESIGN 4 C06)" % j,
                        iv.t + L <= 2 * L + fill_now + 1)
            if saved is not None:
                env.vars["n"] = saved
            elif uses_n:
                env.vars.pop("n", None)


def process_vcs(read, T, log=None):
    kind = KINDS[T]
    src = read(kind.file)
    S = Structure(kind, src)
    fn = T + "::process_into_buffer"
    obs = []
    st = State(kind, src)
    env = st.env
    install_helpers(env, read, kind, src)
    v, L = st.v, st.L
    st.fill_at_entry = st.fill
    D = z3.Real("f32_slack")
    pre = st.wf_cfg() + st.wf_ratio() + st.wf_fill()
    if kind.fixed_in:
        pre += st.wf_pos_in() + st.carve_in()
        st.consumed = v("chunk_size")
    else:
        pre += wf_pos_out(st, D) + wf_need(st, D) + wf_buf_out(st)
        st.consumed = v("needed_input_size")
    # prefix lets (needed_len ...) and the validated lengths
    for s_ in S.prefix:
        if s_[0] == "let":
            env.exec_stmt(s_)
    a_in, a_out = env.ev(S.call[2][4]), env.ev(S.call[2][5])
    pre += [st.in_len >= a_in.t, st.out_len >= a_out.t, st.buflen >= 0]
    adv_in, adv_out = a_in.t, a_out.t

    vc0 = VC("%s.process.setup" % T, fn)
    vc0.witness = st.witness()
    vc0.assume(pre)
    for entry in S.seq:
        k_, item = entry[0], entry[1]
        if k_ == "stmt":
            env.exec_stmt(item)
        elif k_ == "move":
            move_goals(vc0, env, st, item, kind)
        else:
            cond = env.ev(item)
            n_before = len(vc0.goals)
            for f_ in entry[2]:
                move_goals(vc0, env, st, f_, kind)
            vc0.goals[n_before:] = [(lbl, g_, list(p_) + [cond.t]) for (lbl, g_, p_) in vc0.goals[n_before:]]
            txt = " ".join(rp.show(f_) for f_ in entry[2]) + " " + " ".join(rp.show(n) for f_ in entry[2] for n in rp.walk(f_) if n[0] == "mcall")
            if "copy_within" in txt:
                vc0.goal("C05 when the history shift is skipped (`if %s` false) nothing had been loaded by the previous call" % rp.show(item)[:50],
                         st.fill_at_entry == 0, [z3.Not(cond.t)])
            if "copy_from_slice" in txt:
                vc0.goal("C05 when the chunk load is skipped (`if %s` false) no input frames are consumed by this call" % rp.show(item)[:50],
                         st.consumed == 0, [z3.Not(cond.t)])
            env.exec_expr(entry[3])
    vc0.take_side(env)
    fill_now = env.vars["self.current_buffer_fill"].t if "self.current_buffer_fill" in env.vars else v("chunk_size")
    T0_term = env.get("t_ratio").t
    IDX0 = env.get("idx").t
    # ---- cut: the values computed by the setup are summarised by facts proved here and *only* those facts are used by
    # the loop obligations (keeps every loop VC small; the facts are goals of this VC)
    T0 = z3.Real("T0")
    rr = v("resample_ratio")
    facts = [T0 * rr <= 1 + z3.Q(1, 2 ** 50), T0 * rr >= 1 - z3.Q(1, 2 ** 50), T0 > 0]
    vc0.goal("cut: t_ratio == fl(1/ratio): t_ratio * ratio within 2^-50 of 1", z3.And(T0_term * rr <= 1 + z3.Q(1, 2 ** 50), T0_term * rr >= 1 - z3.Q(1, 2 ** 50), T0_term > 0))
    vc0.goal("cut / C06: a call that is not a ramp has a zero increment (constant spacing 1/new from the first frame)",
             env.get("t_ratio_increment").t == 0)
    vc0.goal("cut: t_ratio_end == t_ratio when current and target ratio coincide", env.get("t_ratio_end").t == T0_term)
    vc0.goal("cut: the loop starts at the carried position", IDX0 == v("last_index"))
    IDX0 = v("last_index")
    abs_vars = {"t_ratio": Val(T0, "f64"), "t_ratio_end": Val(T0, "f64"), "t_ratio_increment": Val(R(0), "f64"),
                "idx": Val(IDX0, "f64")}
    ADV = z3.Int("advertised_out")
    if kind.fixed_in:
        END = z3.Int("end_idx_cut")
        CE = z3.Int("ceil_t_ratio_end")
        facts += [END == v("chunk_size") - (L + 1) - CE, z3.ToReal(CE) >= T0, z3.ToReal(CE) < T0 + 1,
                  z3.ToReal(ADV) > z3.ToReal(v("chunk_size")) * rr * (1 - z3.Q(1, 2 ** 45)) + 9, ADV == adv_out]
        vc0.goal("cut: end_idx == chunk_size - (L+1) - ceil(t_ratio_end)", env.get("end_idx").t == v("chunk_size") - (L + 1) - zceil(T0_term))
        vc0.goal("cut: advertised output length exceeds chunk*ratio + 9",
                 z3.ToReal(adv_out) > z3.ToReal(v("chunk_size")) * rr * (1 - z3.Q(1, 2 ** 45)) + 9)
        abs_vars["end_idx"] = Val(END, "isize")
        adv_out_cut = ADV
        pre_cut = [c for c in pre]
    else:
        vc0.goal("cut / C05: the recorded fill is the advertised input need", fill_now == v("needed_input_size"))
        fill_now = v("needed_input_size")
        adv_out_cut = adv_out
        pre_cut = [c for c in pre]
    obs += vc0.discharge(env)
    # environment of the loop obligations: fresh, with the cut variables
    for k_, val_ in abs_vars.items():
        env.vars[k_] = val_
    env.assumes = []            # rounding-slack facts of the setup are summarised by `facts`
    env._memo = {}
    env.side = []
    if "self.current_buffer_fill" in env.vars and not kind.fixed_in:
        env.vars["self.current_buffer_fill"] = Val(v("needed_input_size"), "usize")
    if "self.current_buffer_fill" in env.vars and kind.fixed_in:
        env.vars["self.current_buffer_fill"] = Val(v("chunk_size"), "usize")
        fill_now = v("chunk_size")
    common = list(pre_cut) + facts
    adv_out = adv_out_cut

    for arm in S.arms:
        an = "%s.process.%s" % (T, arm.name)
        loop = arm.loop
        # ---- loop variables and invariant
        e0 = env.clone()
        e0.vars = dict(env.vars)
        e0.assumes = []
        e0.side = []
        e0._memo = {}
        e0.abs_slack = E_STEP
        for d in arm.decls:
            e0.exec_stmt(d)
        if loop[0] == "while":
            cnt_name = "n"
            guard_expr = loop[1]
        else:
            cnt_name = loop[1][2][0]
            rng = rp.strip_paren(loop[2])
            if rng[0] != "range" or rp.show(rng[1]) != "0" or rng[3]:
                raise Undecided("for loop of arm %s is not `0..bound`" % arm.name)
            guard_expr = ("binary", "<", ("path", [cnt_name]), rng[2])
        mod = assigned_names(arm.stepping + arm.after) | {cnt_name}
        idx_h, tr_h, cnt_h = z3.Real("idx_h"), z3.Real("t_ratio_h"), z3.Int("count_h")

        def havoc(e):
            e.vars["idx"] = Val(idx_h, "f64")
            e.vars["t_ratio"] = Val(tr_h, "f64")
            e.vars[cnt_name] = Val(cnt_h, "usize")
            scratch = set()
            for d in arm.decls:
                scratch.update(d[1][2])
            for m in mod - {"idx", "t_ratio", cnt_name}:
                if m in scratch:
                    continue        # per-iteration scratch declared in the arm (points / nearest): written before it is read
                if m in e.vars:
                    raise Undecided("loop of arm %s modifies `%s`, which the invariant does not cover" % (arm.name, m))

        def inv(idx, tr, cnt, bound_cnt):
            c = [tr == T0, cnt >= 0,
                 idx - (IDX0 + z3.ToReal(cnt) * T0) <= z3.ToReal(cnt) * E_STEP,
                 idx - (IDX0 + z3.ToReal(cnt) * T0) >= -z3.ToReal(cnt) * E_STEP]
            if kind.fixed_in:
                endv = z3.ToReal(e0.get("end_idx").t)
                c.append(z3.Or(cnt == 0, idx - T0 < endv + E_STEP))
                # the same progress measured in output frames (keeps the count obligations within Z3's reach)
                c.append(z3.ToReal(cnt) * (1 - z3.Q(1, 2 ** 27)) <= (idx - IDX0) * v("resample_ratio"))
            else:
                c.append(cnt <= bound_cnt)
            return c
        bound_cnt = v("chunk_size")
        # ---- base
        vb = VC(an + ".base", fn)
        vb.witness = st.witness()
        vb.assume(common)
        cnt0 = e0.vars[cnt_name].t if loop[0] == "while" else z3.IntVal(0)
        for i, c in enumerate(inv(IDX0, T0, cnt0, bound_cnt)):
            vb.goal("loop invariant clause %d holds on entry" % i, c)
        obs += vb.discharge(e0)
        # ---- step
        es = e0.clone()
        es.vars = dict(e0.vars)
        havoc(es)
        vs = VC(an + ".step", fn)
        vs.witness = st.witness()
        vs.assume(common, inv(idx_h, tr_h, cnt_h, bound_cnt))
        if kind.sinc:
            # carve-out F11/F12 (DESIGN.md 7): Cubic/Quadratic need oversampling_factor >= 3, Linear >= 2
            fmin = {"Cubic": 3, "Quadratic": 3, "Linear": 2}.get(arm.name, 1)
            vs.assume(st.factor >= fmin)
        vs.facts = facts
        g = es.ev(guard_expr)
        vs.assume(g.t)
        hints(vs, st, kind, T0, IDX0, idx_h, cnt_h, e0, D if not kind.fixed_in else None, fill_now, step=True)
        mark = len(es.side)
        for s_ in arm.stepping:
            es.exec_stmt(s_)
        vs.take_side(es, mark)
        if kind.fixed_in:
            lin = [f_ for f_ in facts if "*" not in str(f_)] + [g.t, tr_h == T0, L >= 8]
            vs.lemma("the exact new position is below the integer chunk - L - 1, so its ceiling is at most that",
                     zceil(idx_h + tr_h) <= v("chunk_size") - L - 1, using=lin)
            vs.lemma("position after the step stays at or below chunk - L - 1 (rounding is monotone)",
                     es.vars["idx"].t <= z3.ToReal(v("chunk_size") - L - 1),
                     using=[f_ for f_ in facts if "*" not in str(f_)] + [g.t, tr_h == T0, L >= 8] + list(es.assumes))
        else:
            chr_ = z3.ToReal(v("chunk_size"))
            vs.lemma("position after the step is at most last_index + chunk/ratio (+2^-16)",
                     es.vars["idx"].t <= IDX0 + chr_ / v("resample_ratio") + z3.Q(1, 2 ** 16),
                     using=inv(idx_h, tr_h, cnt_h, bound_cnt) + [g.t, v("chunk_size") <= CHUNK_MAX, v("chunk_size") >= 1, T0 > 0,
                                                                 z3.ToReal(cnt_h + 1) * T0 <= chr_ * T0] + list(es.assumes))
        access_goals(vs, es, st, arm, fill_now, cnt_h)
        if not kind.sinc:
            # C08 window choice: the W samples nearest to the instant, abscissa = fractional part of the instant
            WIN = {"Septic": (3, 8, "interp_septic"), "Quintic": (2, 6, "interp_quintic"), "Cubic": (1, 4, "interp_cubic"),
                   "Linear": (0, 2, "interp_lin"), "Nearest": (0, 1, None)}
            if arm.name in WIN and getattr(vs, "window", None) is not None:
                off, W, fname = WIN[arm.name]
                a_, b_ = vs.window
                idxn = es.vars["idx"].t
                vs.goal("C08 the %s arm reads the %d samples starting %d before floor(instant): window == [floor(idx)-%d, floor(idx)-%d+%d) + 2L" % (
                    arm.name, W, off, off, off, W), z3.And(a_ == zfloor(idxn) - off + 2 * L, b_ - a_ == W))
                if fname is not None:
                    calls = [n for n in rp.walk(arm.chan_loop[3]) if n[0] == "call" and rp.show(n[1]).startswith("interp_")]
                    ok = [rp.show(n[1]) for n in calls] == [fname] and len(calls[0][2]) == 2 and rp.show(calls[0][2][1]) == "buf"
                    vs.goal("C08 the %s arm evaluates %s(abscissa, window) - the interpolant of its own degree" % (arm.name, fname), z3.BoolVal(ok))
                    if ok:
                        # the abscissa is whatever expression is passed, evaluated in the state after the stepping prefix (names are incidental)
                        try:
                            absc = es.ev(calls[0][2][0])
                        except Undecided as e_:
                            raise Undecided("abscissa `%s` of %s not evaluable: %s" % (rp.show(calls[0][2][0]), fname, e_))
                        vs.goal("C08 the abscissa is the fractional part of the instant: %s == idx - floor(idx)" % rp.show(calls[0][2][0]),
                                absc.t == idxn - z3.ToReal(zfloor(idxn)))
        mark2 = len(es.side)
        for s_ in arm.after:
            es.exec_stmt(s_)
        vs.take_side(es, mark2)
        cnt_next = es.vars[cnt_name].t if loop[0] == "while" else cnt_h + 1
        vs.goal("C06 input-time instants strictly increase (idx' > idx)", es.vars["idx"].t > idx_h)
        vs.goal("C06 spacing of this frame is 1/ratio of the (unchanged) current ratio, within 2^-40 relative",
                z3.And((es.vars["idx"].t - idx_h) * v("resample_ratio") <= 1 + z3.Q(1, 2 ** 20) * 0 + z3.Q(1, 2 ** 20),
                       (es.vars["idx"].t - idx_h) * v("resample_ratio") >= 1 - z3.Q(1, 2 ** 20)))
        for i, c in enumerate(inv(es.vars["idx"].t, es.vars["t_ratio"].t, cnt_next, bound_cnt)):
            vs.goal("loop invariant clause %d is preserved" % i, c)
        if kind.fixed_in:
            vs.goal("C04 frame counter stays below the advertised output_frames_next()", cnt_next <= adv_out)
        obs += vs.discharge(es)
        # ---- exit (the same for every arm: checked once per type)
        if arm is not S.arms[0]:
            continue
        an = "%s.process" % T
        ex = e0.clone()
        ex.vars = dict(e0.vars)
        havoc(ex)
        vx = VC(an + ".exit", fn)
        vx.witness = st.witness()
        vx.assume(common, inv(idx_h, tr_h, cnt_h, bound_cnt))
        vx.facts = facts
        hints(vx, st, kind, T0, IDX0, idx_h, cnt_h, e0, D if not kind.fixed_in else None, fill_now)
        gx = ex.ev(guard_expr)
        vx.assume(z3.Not(gx.t))
        if not kind.fixed_in:
            vx.assume(cnt_h == v("chunk_size"))      # follows from cnt <= chunk (invariant) and not (cnt < chunk)
        mark = len(ex.side)
        for s_ in S.post:
            ex.exec_stmt(s_)
        vx.take_side(ex, mark)
        tail = rp.strip_paren(S.tail)
        if not (tail[0] == "call" and rp.show(tail[1]) == "Ok" and rp.strip_paren(tail[2][0])[0] == "tuple"):
            raise Undecided("tail of process_into_buffer is not Ok((a, b))")
        ret = ex.ev(tail[2][0])
        r_in, r_out = ret.t[0].t, ret.t[1].t
        post_goals(vx, st, ex, kind, r_in, r_out, adv_in, adv_out, cnt_h, D)
        obs += vx.discharge(ex)
    return obs


def hints(vc, st, kind, T0, IDX0, idx_h, cnt_h, e0, D, fill_now, step=False):
    """Intermediate facts (each proved, in order, before it is used): they spell out the nonlinear steps for Z3."""
    v, L = st.v, st.L
    rr = v("resample_ratio")
    TRc = z3.ToReal
    if kind.fixed_in:
        END = e0.get("end_idx").t
        cfgp = st.wf_cfg() + st.wf_ratio() + st.carve_in()
        vc.lemma("ceil(1/previous ratio) <= A", cpos(st.tp) <= TRc(st.A), using=cfgp + st.wf_pos_in())
        vc.lemma("ceil(1/ratio) <= A", cpos(rr) <= TRc(st.A), using=cfgp)
        vc.lemma("span from the carried position to end_idx is at most chunk + A - 1",
                 TRc(END) - IDX0 <= TRc(v("chunk_size")) + TRc(st.A) - 1 + z3.Q(1, 2 ** 19),
                 using=st.wf_pos_in() + vc.facts + [st.A >= 1, L >= 8])
        vc.lemma("(A-1) * ratio <= 7 (carve-out, with the ulp slack of the ratio)", TRc(st.A - 1) * rr <= 7 * (1 + z3.Q(1, 2 ** 39)), using=cfgp)
        vc.lemma("progress so far, in input frames, is below the span + one step",
                 idx_h - IDX0 <= TRc(v("chunk_size")) + TRc(st.A) - 1 + z3.Q(1, 2 ** 19) + T0 + E_STEP,
                 using=[z3.Or(cnt_h == 0, idx_h - T0 < TRc(END) + E_STEP), z3.Implies(cnt_h == 0, idx_h == IDX0), T0 > 0, st.A >= 1,
                        v("chunk_size") >= 1, TRc(END) - IDX0 <= TRc(v("chunk_size")) + TRc(st.A) - 1 + z3.Q(1, 2 ** 19)])
        vc.lemma("the same progress in output frames: (idx - idx0)*ratio <= chunk*ratio + (A-1)*ratio + 1 + 2^-10",
                 (idx_h - IDX0) * rr <= TRc(v("chunk_size")) * rr + TRc(st.A - 1) * rr + 1 + z3.Q(1, 2 ** 10),
                 using=[idx_h - IDX0 <= TRc(v("chunk_size")) + TRc(st.A) - 1 + z3.Q(1, 2 ** 19) + T0 + E_STEP, rr > 0, rr <= 128,
                        T0 * rr <= 1 + z3.Q(1, 2 ** 50), T0 > 0])
        vc.lemma("ceil(t_ratio_end) <= ceil(1/ratio) as the wf bound counts it",
                 TRc(v("chunk_size") - (L + 1) - END) <= cpos(rr), using=vc.facts + [rr > 0])
    else:
        ch = v("chunk_size")
        rng = [rr >= z3.Q(1, 128), rr <= 128, ch >= 1, ch <= CHUNK_MAX, cnt_h >= 0, cnt_h <= ch]
        vc.lemma("frames so far advance at most like the whole chunk: count*T0 <= chunk*T0", TRc(cnt_h) * T0 <= TRc(ch) * T0,
                 using=rng + [T0 > 0])
        if step:
            vc.lemma("one more frame still advances at most like the whole chunk: (count+1)*T0 <= chunk*T0",
                     TRc(cnt_h + 1) * T0 <= TRc(ch) * T0, using=rng + [T0 > 0, cnt_h + 1 <= ch])
        vc.lemma("chunk*T0 is chunk/ratio within 2^-30", z3.And(TRc(ch) * T0 <= TRc(ch) / rr + z3.Q(1, 2 ** 30), TRc(ch) * T0 >= TRc(ch) / rr - z3.Q(1, 2 ** 30)),
                 using=rng + vc.facts)
        vc.lemma("T0 <= 1/lo (+ulp)", T0 <= (1 / st.lo) * (1 + z3.Q(1, 2 ** 30)), using=vc.facts + st.wf_ratio() + [st.lo > 0, st.lo >= RATIO_LO])
        lo1 = st.lo * (1 - z3.Q(1, 2 ** 30))
        if not step:
            vc.lemma("chunk/ratio <= chunk/lo", TRc(ch) / rr <= TRc(ch) / lo1, using=st.wf_ratio() + st.wf_cfg())
            vc.lemma("at exit every frame has been produced: position within 2^-16 of last_index + chunk/ratio",
                     z3.And(idx_h <= IDX0 + TRc(ch) / rr + z3.Q(1, 2 ** 16), idx_h >= IDX0 + TRc(ch) / rr - z3.Q(1, 2 ** 16)))
            return
        q = z3.Real("ghost_q")
        n0 = z3.Int("ghost_needed0")
        mr = v("max_relative_ratio")
        bufw = wf_buf_out(st)
        vc.lemma("chunk/ratio <= chunk/lo", TRc(ch) / rr <= TRc(ch) / lo1, using=st.wf_ratio() + st.wf_cfg())
        vc.lemma("buffer length >= max*q + 3L - 1 (constructor sizing)", TRc(st.buflen) >= mr * q + 3 * TRc(L) - 1,
                 using=bufw + [mr >= 1, L >= 8, L % 2 == 0, q > 0])
        vc.lemma("chunk/lo <= max*q (the largest input need the configuration allows)",
                 TRc(ch) / (st.lo * (1 - z3.Q(1, 2 ** 30))) <= mr * q * (1 + z3.Q(1, 2 ** 29)),
                 using=bufw + st.wf_cfg())
        vc.lemma("advertised input need + 2L + 1 <= buffer length", v("needed_input_size") + 2 * L + 1 <= st.buflen,
                 using=wf_need(st, D) + wf_pos_out(st, D) + [L >= 8, L % 2 == 0, mr >= 1, q > 0, v("chunk_size") >= 1, st.lo > 0, rr > 0])


def postblock_vcs(read, T):
    """The post-loop block of process_into_buffer, for ANY call (ramps included, arbitrary final position): the current
    ratio becomes the target and the bookkeeping of the next call is derived from the *new* state."""
    kind = KINDS[T]
    src = read(kind.file)
    S = Structure(kind, src)
    st = State(kind, src, ramp=True)
    env = st.env
    install_helpers(env, read, kind, src)
    D = z3.Real("f32_slack")
    v = st.v
    fn = T + "::process_into_buffer"
    vc = VC("%s.process.post_block(any call)" % T, fn)
    vc.witness = st.witness() + [v("target_ratio") == 1]
    vc.assume(st.wf_cfg() + st.wf_ratio())
    idxf = z3.Real("idx_final")
    vc.assume(idxf >= -(2 ** 17), idxf <= 2 ** 17, v("last_index") >= -(2 ** 17), v("last_index") <= 0)
    if "current_buffer_fill" in st.fields:
        vc.assume(v("current_buffer_fill") >= 0, v("current_buffer_fill") <= 2 ** 18)
    for s_ in S.setup:
        if s_[0] == "let":
            env.exec_stmt(s_)        # locals of the setup the post block may refer to (sinc_len, oversampling_factor, ..)
    env.vars["idx"] = Val(idxf, "f64")
    env.vars["n"] = Val(z3.Int("n_final"), "usize")
    if not kind.fixed_in:
        vc.assume(wf_pos_out(st, D)[:2], v("needed_input_size") >= 0, v("needed_input_size") <= 2 ** 18)
        # the setup assigns the fill before the loop
        for s_ in S.setup:
            if s_[0] == "expr" and rp.strip_paren(s_[1])[0] == "assign" and "current_buffer_fill" in rp.show(s_[1]):
                env.exec_stmt(s_)
    env.abs_slack = E_STEP
    for s_ in S.post:
        env.exec_stmt(s_)
    vc.take_side(env)
    nv = lambda n: env.vars["self." + n].t
    vc.goal("C06 after ANY call (ramp or step) the current ratio equals the target: the next chunk runs at 1/new",
            z3.And(nv("resample_ratio") == v("target_ratio"), nv("target_ratio") == v("target_ratio")))
    if not kind.fixed_in:
        X = need_bounds(st, nv("last_index"), nv("chunk_size"), nv("resample_ratio"), nv("target_ratio"), D)
        nd = z3.ToReal(nv("needed_input_size"))
        # only the relation between the new need and the NEW state matters here (no claim about its size)
        Dloc = z3.Q(1, 2 ** 20) * (zabs(nv("last_index")) + z3.ToReal(nv("chunk_size")) / nv("resample_ratio") + z3.ToReal(st.L) + 16)
        vc.goal("C06/C04 the next input need is computed from the NEW ratio and the NEW position: "
                "ceil(last_index' + chunk/ratio' + L) within the f32 slack",
                z3.Or(z3.And(nd >= X - Dloc, nd <= X + 1 + Dloc), z3.And(X < 0, nd == 0)))
        vc.goal("C05 the carried position is relative to the input just consumed: last_index' == idx - needed (rounded)",
                z3.And(nv("last_index") - (idxf - z3.ToReal(v("needed_input_size"))) <= z3.Q(1, 2 ** 30),
                       nv("last_index") - (idxf - z3.ToReal(v("needed_input_size"))) >= -z3.Q(1, 2 ** 30)))
    else:
        vc.goal("C05 the carried position is relative to the chunk just consumed: last_index' == idx - chunk_size (rounded)",
                z3.And(nv("last_index") - (idxf - z3.ToReal(v("chunk_size"))) <= z3.Q(1, 2 ** 30),
                       nv("last_index") - (idxf - z3.ToReal(v("chunk_size"))) >= -z3.Q(1, 2 ** 30)))
    return vc.discharge(env)


def estimate_vcs(read, T):
    """C04 (fixed-input types): the advertised output estimate and the ramp's frame estimate are built from the MEAN of the
    current and the target ratio (expression identity with the documented estimate chunk*(r+t)/2 + 10); the bound
    `frames produced <= estimate` itself is proved for calls that are not ramps (process VCs) and rests, for ramps, on the
    AM-HM argument of DESIGN.md 4 C04 (not machine-checked)."""
    kind = KINDS[T]
    if not kind.fixed_in:
        return []
    src = read(kind.file)
    impl = ["Resampler", "for " + kind.T + "<"]
    inherent = ["impl<T> " + kind.T + "<"]
    obs = []
    fn = T + "::output_frames_next"
    want = "(((self.chunk_size as f64) * ((0.5 * self.resample_ratio) + (0.5 * self.target_ratio))) + 10.0) as usize"
    wantn = syn.norm_text(rp.parse_expr(want))
    sig, body, l0, _ = rp.find_fn(src, "output_frames_next", impl)
    got = syn.inline_self_getters(syn.subst(body[2], syn.let_env(body[1], syn.subst)), src, [impl, inherent])
    ok = syn.norm_text(got) == wantn
    obs.append(Obligation("%s.output_frames_next :: C04 the advertised estimate is floor(chunk * mean(current, target ratio) + 10)" % T,
                          "expression-identity", DISCHARGED if ok else FAILED, 0.0, "complete", [fn], checks=1,
                          detail="" if ok else "output_frames_next() computes `%s`, the documented estimate is `%s`: while a ramp is pending the "
                                               "number of frames written can exceed what is advertised" % (syn.norm_text(got), wantn)))
    # output_frames_max() is the same expression at the largest chunk and the largest accepted ratio (original*max, the very
    # product the setters compare against): next <= max then follows bit-precisely from monotonicity of *, +, as usize
    # and from `accepted ratio <= original*max` (C12 contracts)
    cm = "self.max_chunk_size" if "max_chunk_size" in syn.struct_fields(src, kind.T) else "self.chunk_size"
    want_max = syn.norm_text(rp.parse_expr("(((%s as f64) * (self.resample_ratio_original * self.max_relative_ratio)) + 10.0) as usize" % cm))
    sigm, bodym, l0m, _ = rp.find_fn(src, "output_frames_max", impl)
    gotm = syn.inline_self_getters(syn.subst(bodym[2], syn.let_env(bodym[1], syn.subst)), src, [impl, inherent])
    okm = syn.norm_text(gotm) == want_max
    obs.append(Obligation("%s.output_frames_max :: C04 the advertised maximum is the estimate at the largest chunk and the largest accepted ratio "
                          "(original*max as one product), hence output_frames_next() <= output_frames_max() by monotonicity" % T,
                          "expression-identity", DISCHARGED if okm else FAILED, 0.0, "complete", [T + "::output_frames_max"], checks=1,
                          detail="" if okm else "output_frames_max() computes `%s`, expected `%s`: it is then not a bound for output_frames_next() at every "
                                                "reachable ratio (e.g. chunk 1392, original 44100/48000, max 10 with the product associated differently: 12799 > 12798)" % (
                                                    syn.norm_text(gotm), want_max)))
    S = Structure(kind, src)
    env = syn.let_env(S.setup, syn.subst)
    if "approximate_nbr_frames" in env:
        want2 = syn.norm_text(rp.parse_expr("(self.chunk_size as f64) * ((0.5 * self.resample_ratio) + (0.5 * self.target_ratio))"))
        got2 = syn.norm_text(syn.inline_self_getters(env["approximate_nbr_frames"], src, [impl, inherent]))
        ok2 = got2 == want2
        obs.append(Obligation("%s.process :: C06 the ramp is spread over chunk * mean(current, target ratio) frames" % T, "expression-identity",
                              DISCHARGED if ok2 else FAILED, 0.0, "complete", [T + "::process_into_buffer"], checks=1,
                              detail="" if ok2 else "approximate_nbr_frames is `%s`, expected `%s`" % (got2, want2)))
    return obs


def rampstep_vcs(read, T):
    """C06, ANY call (ramps included): the stepping prefix of every arm advances `t_ratio` by exactly the per-frame increment and
    `idx` by exactly the new t_ratio (both up to rounding), for an arbitrary loop state.  For the fixed-output types, whose ramp is
    spread over exactly chunk_size frames, the spacing also stays between the reciprocals of the old and the new ratio and ends at
    1/new."""
    kind = KINDS[T]
    src = read(kind.file)
    S = Structure(kind, src)
    obs = []
    for arm in S.arms:
        st = State(kind, src, ramp=True)
        env = st.env
        install_helpers(env, read, kind, src)
        env.abs_slack = E_STEP
        v = st.v
        fn = T + "::process_into_buffer"
        vc = VC("%s.process.%s.ramp_step(any call)" % (T, arm.name), fn)
        vc.witness = st.witness() + [v("target_ratio") == 1]
        vc.assume(st.wf_cfg() + st.wf_ratio())
        if kind.sinc:
            vc.assume(st.factor >= {"Cubic": 3, "Quadratic": 3, "Linear": 2}.get(arm.name, 1))
        for s_ in S.setup:
            if s_[0] == "let":
                env.exec_stmt(s_)
        for d in arm.decls:
            env.exec_stmt(d)
        T0 = env.get("t_ratio").t
        inc = env.get("t_ratio_increment").t
        tend = env.get("t_ratio_end").t
        idx_h, tr_h, cnt_h = z3.Real("idx_h"), z3.Real("t_ratio_h"), z3.Int("count_h")
        env.vars["idx"] = Val(idx_h, "f64")
        env.vars["t_ratio"] = Val(tr_h, "f64")
        cname = "n" if arm.loop[0] == "while" else arm.loop[1][2][0]
        env.vars[cname] = Val(cnt_h, "usize")
        chunk = v("chunk_size")
        vc.assume(idx_h >= -(2 ** 17), idx_h <= 2 ** 17, tr_h > 0, tr_h <= 128, cnt_h >= 0, cnt_h <= 2 ** 23)
        for s_ in arm.stepping:
            env.exec_stmt(s_)
        trn, idxn = env.vars["t_ratio"].t, env.vars["idx"].t
        tol = z3.Q(1, 2 ** 40)
        vc.goal("C06 the spacing changes by exactly the per-frame increment: t_ratio' == t_ratio + t_ratio_increment (rounded)",
                z3.And(trn - (tr_h + inc) <= E_STEP, trn - (tr_h + inc) >= -E_STEP))
        vc.goal("C06 the instant advances by exactly the new spacing: idx' == idx + t_ratio' (rounded)",
                z3.And(idxn - (idx_h + trn) <= E_STEP, idxn - (idx_h + trn) >= -E_STEP))
        if not kind.fixed_in:
            # linear ramp over exactly chunk_size frames
            TRc = z3.ToReal
            vc.assume(cnt_h < chunk, tr_h - (T0 + TRc(cnt_h) * inc) <= TRc(cnt_h) * E_STEP, tr_h - (T0 + TRc(cnt_h) * inc) >= -TRc(cnt_h) * E_STEP)
            lo_, hi_ = z3.If(T0 <= tend, T0, tend), z3.If(T0 <= tend, tend, T0)
            vc.lemma("the increment is (1/new - 1/old)/chunk_size", z3.And(inc * TRc(chunk) - (tend - T0) <= tol * 256, inc * TRc(chunk) - (tend - T0) >= -tol * 256))
            vc.lemma("(count+1) * increment stays within the total change", z3.And(TRc(cnt_h + 1) * inc <= z3.If(inc >= 0, TRc(chunk) * inc, R(0)),
                                                                                  TRc(cnt_h + 1) * inc >= z3.If(inc >= 0, R(0), TRc(chunk) * inc)),
                     using=[cnt_h >= 0, cnt_h < chunk, chunk >= 1, chunk <= CHUNK_MAX])
            vc.goal("C06 during a ramp the spacing stays between the reciprocals of the old and the new ratio (2^-16 slack)",
                    z3.And(trn >= lo_ - z3.Q(1, 2 ** 16), trn <= hi_ + z3.Q(1, 2 ** 16)))
            vc.goal("C06 the ramp follows the straight line from 1/old to 1/new: t_ratio' == T0 + (count+1)*increment",
                    z3.And(trn - (T0 + TRc(cnt_h + 1) * inc) <= TRc(cnt_h + 1) * E_STEP, trn - (T0 + TRc(cnt_h + 1) * inc) >= -TRc(cnt_h + 1) * E_STEP))
        obs += vc.discharge(env)
    return obs


def inmax_vcs(read, T):
    """C04 (fixed-output types): at every state of the representation invariant input_frames_next() <= input_frames_max()."""
    kind = KINDS[T]
    if kind.fixed_in:
        return []
    src = read(kind.file)
    st = State(kind, src, ramp=True)
    env = st.env
    install_helpers(env, read, kind, src)
    D = z3.Real("f32_slack")
    v = st.v
    vc = VC("%s.input_frames_max" % T, T + "::input_frames_max")
    vc.witness = st.witness() + [v("target_ratio") == 1]
    vc.assume(wf_all(st, D))
    sig, body, l0, _ = rp.find_fn(src, "input_frames_max", ["Resampler", "for " + kind.T + "<"])
    if body[1] or body[2] is None:
        raise Undecided("input_frames_max is not a single expression")
    val = env.ev(body[2])
    vc.take_side(env)
    TRc = z3.ToReal
    lo1 = st.lo * (1 - z3.Q(1, 2 ** 30))
    rr, tt = v("resample_ratio"), v("target_ratio")
    vc.lemma("chunk/mean ratio <= max_chunk/lo", TRc(v("chunk_size")) / (rr / 2 + tt / 2) <= TRc(st.maxchunk) / lo1,
             using=st.wf_ratio() + st.wf_cfg())
    vc.lemma("max_chunk/lo == max_chunk/original*max up to 2^-29", TRc(st.maxchunk) / lo1 <= TRc(st.maxchunk) / v("resample_ratio_original") * v("max_relative_ratio") * (1 + z3.Q(1, 2 ** 29)),
             using=st.wf_cfg())
    vc.goal("C04 input_frames_next() <= input_frames_max() at every state satisfying the representation invariant",
            v("needed_input_size") <= val.t)
    return vc.discharge(env)


def delay_vcs(read, T):
    """C14 (polynomial resamplers): output_delay() is floor(L * current ratio / 2), the lag of a stream whose first frame is
    evaluated at input time -L/2 + 1/ratio (initial position -L/2: constructor / reset obligations) with frames 1/ratio apart."""
    kind = KINDS[T]
    if kind.sinc:
        return []
    src = read(kind.file)
    st = State(kind, src, ramp=True)
    env = st.env
    install_helpers(env, read, kind, src)
    sig, body, l0, _ = rp.find_fn(src, "output_delay", ["Resampler", "for " + kind.T + "<"])
    vc = VC("%s.output_delay" % T, T + "::output_delay")
    vc.witness = st.witness()
    vc.assume(st.wf_cfg() + st.wf_ratio())
    if body[2] is None or body[1]:
        raise Undecided("output_delay is not a single expression")
    val = env.ev(body[2])
    vc.take_side(env)
    r = st.v("resample_ratio")
    Lr = z3.ToReal(st.L)
    # first-frame instant -L/2 + 1/r, frames 1/r apart  =>  an event at input n is centred at output (n + L/2) r - 1;
    # the report must be within max(1, r) + 1 output frames of that lag
    lag = Lr / 2 * r - 1
    tol = z3.If(r >= 1, r, R(1)) + 1
    vc.goal("C14 output_delay() is within max(1,ratio)+1 frames of the true lag (L/2)*ratio - 1 of the evaluation instants",
            z3.And(z3.ToReal(val.t) - lag <= tol, z3.ToReal(val.t) - lag >= -tol))
    vc.goal("C14 output_delay() == floor(L * current ratio / 2) (rounding of the product aside)",
            z3.And(z3.ToReal(val.t) <= Lr * r / 2 * (1 + z3.Q(1, 2 ** 40)), z3.ToReal(val.t) >= Lr * r / 2 * (1 - z3.Q(1, 2 ** 40)) - 1))
    return vc.discharge(env)


def wf_pos_out(st, D):
    v, L = st.v, st.L
    # D: bound of the accumulated f32 rounding error of the input-need formula (3 conversions, 3 operations on values
    # <= chunk/lo + L + 16, relative 2^-24 each, with margin: 2^-20).  Domain assumption: D <= 1/4, i.e. chunk/lo <= 2^18.
    return [D == z3.Q(1, 2 ** 20) * (z3.ToReal(st.maxchunk) / (st.lo * (R(1) - z3.Q(1, 2 ** 30))) + z3.ToReal(L) + 16),
            D <= z3.Q(1, 4),
            v("last_index") >= -(z3.ToReal(L) + 1) - D - z3.Q(1, 2 ** 16), v("last_index") <= -z3.ToReal(L) / 2]


def need_bounds(st, last, chunk, r, t, D):
    """X - D <= needed <= X + 1 + D  with X = last_index + chunk/(0.5r+0.5t) + L  (the f32 formula, exact part)"""
    X = last + z3.ToReal(chunk) / (r / 2 + t / 2) + z3.ToReal(st.L)
    return X


def wf_need(st, D):
    v = st.v
    X = need_bounds(st, v("last_index"), v("chunk_size"), v("resample_ratio"), v("target_ratio"), D)
    nd = z3.ToReal(v("needed_input_size"))
    return [nd >= X - D, nd <= X + 1 + D, v("needed_input_size") >= 0]


def wf_buf_out(st):
    """constructor: buffer = floor((max+1) * needed0) + 2L with needed0 = ceil(max_chunk/original) + L/2"""
    v, L = st.v, st.L
    q = z3.Real("ghost_q")          # max_chunk / original
    n0 = z3.Int("ghost_needed0")
    return [q * v("resample_ratio_original") == z3.ToReal(st.maxchunk), n0 == zceil(q) + L / 2,
            st.buflen == zfloor((v("max_relative_ratio") + 1) * z3.ToReal(n0)) + 2 * L]


def post_goals(vx, st, ex, kind, r_in, r_out, adv_in, adv_out, cnt_h, D):
    v, L = st.v, st.L
    nv = lambda n: ex.vars["self." + n].t
    vx.goal("C06 after the call the current ratio equals the target (next chunk runs at 1/new)", nv("resample_ratio") == nv("target_ratio"))
    vx.goal("frame: configuration fields untouched",
            z3.And(nv("resample_ratio_original") == v("resample_ratio_original"), nv("max_relative_ratio") == v("max_relative_ratio"),
                   nv("nbr_channels") == v("nbr_channels"), nv("chunk_size") == v("chunk_size")))
    if kind.fixed_in:
        vx.goal("C04 consumed == chunk_size == input_frames_next()", z3.And(r_in == v("chunk_size"), r_in == adv_in))
        vx.goal("C04 produced == frame counter <= output_frames_next()", z3.And(r_out == cnt_h, r_out <= adv_out))
        last = nv("last_index")
        tnew = nv("resample_ratio")
        vx.goal("wf' / C07 carried position stays within [-(L+1)-ceil(1/ratio), -L/2] (no drift)",
                z3.And(last >= -(z3.ToReal(L) + 1) - cpos(tnew) - z3.Q(1, 2 ** 20), last <= -z3.ToReal(L) / 2))
        if "self.current_buffer_fill" in ex.vars:
            vx.goal("wf' / C05 the recorded fill is the chunk just loaded", nv("current_buffer_fill") == v("chunk_size"))
    else:
        vx.goal("C04 consumed == needed_input_size == input_frames_next()", z3.And(r_in == v("needed_input_size"), r_in == adv_in))
        vx.goal("C04 produced == chunk_size == output_frames_next()", z3.And(r_out == v("chunk_size"), r_out == adv_out, cnt_h == v("chunk_size")))
        last = nv("last_index")
        vx.goal("wf' / C07 carried position stays within [-(L+1)-D, -L/2] (no drift)",
                z3.And(last >= -(z3.ToReal(L) + 1) - D - z3.Q(1, 2 ** 16), last <= -z3.ToReal(L) / 2))
        X = need_bounds(st, last, nv("chunk_size"), nv("resample_ratio"), nv("target_ratio"), D)
        nd = z3.ToReal(nv("needed_input_size"))
        vx.goal("wf' next input need covers the next chunk: ceil(last_index + chunk/ratio + L) within the f32 slack",
                z3.And(nd >= X - D, nd <= X + 1 + D))
        vx.goal("wf' / C05 the recorded fill is the input just loaded", nv("current_buffer_fill") == v("needed_input_size"))


# ------------------------------------------------------------------------------------------------
# Straight-line operations: update_ratio (both setters), set_chunk_size, reset, constructor

def exec_method(env, src, kind, name, args=None):
    """symbolically run a method body of the type (statements that only touch sample storage / the mask are skipped)"""
    for impl in (["impl<T> " + kind.T + "<"], ["Resampler", "for " + kind.T + "<"]):
        try:
            sig, body, l0, _ = rp.find_fn(src, name, impl)
            break
        except rp.ParseError:
            continue
    else:
        raise Undecided("anchor lost: %s::%s" % (kind.T, name))
    sigs = syn.self_method_sigs(src)
    import re as _re
    params = [p for p in _re.findall(r"([a-z_][a-z0-9_]*)\s*:", sig.split("(", 1)[1]) if p != "self"]
    for p_, a in zip(params, args or []):
        env.vars[p_] = a
    skipped = []
    items = list(body[1]) + ([("expr", body[2], False, 0)] if body[2] is not None else [])
    for st_ in items:
        if st_[0] == "expr":
            e = rp.strip_paren(st_[1])
            if e[0] == "macro":
                continue
            if e[0] == "call" and rp.show(e[1]) == "Ok":
                continue
            writes = syn.collect_writes(st_, sigs)
            places = {w[0] for w in writes}
            if places and places <= {"self.buffer", "self.channel_mask", "ch", "s", "val"}:
                skipped.append(rp.show(e)[:160])
                continue
        env.exec_stmt(st_)
    return skipped


def control_fields(st):
    out = []
    for f, ty in st.fields.items():
        if ty.replace(" ", "") in ("usize", "f64", "f32", "isize"):
            out.append(f)
    return out


def wf_all(st, D, fields=None):
    """the whole representation invariant over the given field accessor (default: pre-state)"""
    k = st.kind
    c = st.wf_cfg() + st.wf_ratio() + st.wf_fill()
    if k.fixed_in:
        c += st.wf_pos_in() + st.carve_in()
    else:
        c += wf_pos_out(st, D) + wf_need(st, D) + wf_buf_out(st)
    return c


def wf_post(st, env, D, tp_new=None):
    """wf clauses as goals over the post-state `env` (configuration ghosts unchanged)"""
    k = st.kind
    v = lambda n: env.vars["self." + n].t
    L = st.L
    goals = []
    one = R(1)
    s_ = z3.Q(1, 2 ** 40)
    goals.append(("wf' ratios stay inside the configured range", z3.And(v("resample_ratio") >= st.lo * (one - s_), v("resample_ratio") <= st.hi * (one + s_),
                                                                          v("target_ratio") >= st.lo * (one - s_), v("target_ratio") <= st.hi * (one + s_))))
    maxchunk = v("max_chunk_size") if "max_chunk_size" in st.fields else v("chunk_size")
    goals.append(("wf' chunk size within 1..=max", z3.And(v("chunk_size") >= 1, v("chunk_size") <= maxchunk, maxchunk == st.maxchunk)))
    goals.append(("frame: configuration constants untouched", z3.And(v("resample_ratio_original") == st.v("resample_ratio_original"),
                                                                      v("max_relative_ratio") == st.v("max_relative_ratio"), v("nbr_channels") == st.v("nbr_channels"))))
    fill = v("current_buffer_fill") if "current_buffer_fill" in st.fields else st.fill
    goals.append(("wf' recorded fill still fits the buffer", z3.And(fill >= 0, fill + 2 * L <= st.buflen)))
    if k.fixed_in:
        tp = tp_new if tp_new is not None else st.tp
        goals.append(("wf' carried position within its range", z3.And(v("last_index") >= -(z3.ToReal(L) + 1) - cpos(tp) - z3.Q(1, 2 ** 20),
                                                                       v("last_index") <= -z3.ToReal(L) / 2)))
    else:
        goals.append(("wf' carried position within its range", z3.And(v("last_index") >= -(z3.ToReal(L) + 1) - D - z3.Q(1, 2 ** 16),
                                                                       v("last_index") <= -z3.ToReal(L) / 2)))
        X = need_bounds(st, v("last_index"), v("chunk_size"), v("resample_ratio"), v("target_ratio"), D)
        nd = z3.ToReal(v("needed_input_size"))
        goals.append(("wf' advertised input need == ceil(last_index + chunk/mean ratio + L) within the f32 slack", z3.And(nd >= X - D, nd <= X + 1 + D)))
    return goals


def setter_vcs(read, T):
    kind = KINDS[T]
    src = read(kind.file)
    obs = []
    D = z3.Real("f32_slack")
    # ---------------- update_ratio (shared by set_resample_ratio and set_resample_ratio_relative)
    st = State(kind, src, ramp=True)
    env = st.env
    install_helpers(env, read, kind, src)
    vc = VC("%s.update_ratio" % T, T + "::update_ratio")
    vc.assume(wf_all(st, D))
    newr = z3.Real("new_ratio")
    ramp = z3.Bool("ramp")
    s_ = z3.Q(1, 2 ** 40)
    vc.assume(newr >= st.lo * (1 - s_), newr <= st.hi * (1 + s_))
    if not kind.fixed_in:
        lo1 = st.lo * (1 - z3.Q(1, 2 ** 30))
        v = st.v
        vc.lemma("chunk/mean(new ratios) <= chunk/lo", z3.BoolVal(True))
    exec_method(env, src, kind, "update_ratio", [Val(newr, "f64"), Val(ramp, "bool")])
    vc.take_side(env)
    nv = lambda n: env.vars["self." + n].t
    vc.goal("C06/C12 accepted ratio becomes the target", nv("target_ratio") == newr)
    vc.goal("C06 a step change takes effect at once, a ramp keeps the current ratio until the next chunk",
            nv("resample_ratio") == z3.If(ramp, st.v("resample_ratio"), newr))
    vc.goal("frame: position, chunk size and fill untouched", z3.And(nv("last_index") == st.v("last_index"), nv("chunk_size") == st.v("chunk_size"),
                                                                      *([nv("current_buffer_fill") == st.v("current_buffer_fill")] if "current_buffer_fill" in st.fields else [])))
    for (lbl, g) in wf_post(st, env, D):
        vc.goal(lbl, g)
    obs += vc.discharge(env)
    # ---------------- set_chunk_size (sinc types)
    if kind.sinc:
        st = State(kind, src, ramp=True)
        env = st.env
        install_helpers(env, read, kind, src)
        vc = VC("%s.set_chunk_size" % T, T + "::set_chunk_size")
        vc.assume(wf_all(st, D))
        n = z3.Int("chunksize")
        vc.assume(n >= 1, n <= st.maxchunk)
        exec_method(env, src, kind, "set_chunk_size", [Val(n, "usize")])
        vc.take_side(env)
        nv = lambda nm: env.vars["self." + nm].t
        vc.goal("C12 accepted size becomes the chunk size", nv("chunk_size") == n)
        vc.goal("C05 frame: position, ratios and the recorded fill untouched (the history keeps its place)",
                z3.And(nv("last_index") == st.v("last_index"), nv("resample_ratio") == st.v("resample_ratio"), nv("target_ratio") == st.v("target_ratio"),
                       *([nv("current_buffer_fill") == st.v("current_buffer_fill")] if "current_buffer_fill" in st.fields else [])))
        for (lbl, g) in wf_post(st, env, D):
            vc.goal(lbl, g)
        obs += vc.discharge(env)
    return obs


def ctor_values(read, kind, src, st, env):
    """evaluate the struct literal of the constructor with the parameters bound to the configuration ghosts"""
    cname = "new_with_interpolator" if kind.sinc else "new"
    sig, body, l0, _ = rp.find_fn(src, cname, ["impl<T> " + kind.T + "<"])
    e = env.clone()
    e.vars = dict(env.vars)
    e.vars["resample_ratio"] = Val(st.v("resample_ratio_original"), "f64")
    e.vars["max_resample_ratio_relative"] = Val(st.v("max_relative_ratio"), "f64")
    e.vars["chunk_size"] = Val(st.maxchunk, "usize")
    e.vars["nbr_channels"] = Val(st.v("nbr_channels"), "usize")
    e.opaque["interpolator.len()"] = Val(st.L, "usize")
    buflen_expr = None
    for s_ in body[1]:
        if s_[0] == "let" and s_[3] is not None:
            txt = rp.show(s_[3])
            if txt.startswith("vec!") or "make_interpolator" in txt:
                # `let buffer = vec![vec![T::zero(); LEN]; nbr_channels]` -> remember LEN
                if s_[1][2] == ["buffer"]:
                    m = s_[3]
                    if m[0] == "macro" and m[2] and m[2][0][0] == "repeat":
                        inner = rp.strip_paren(m[2][0][1])
                        if inner[0] == "macro" and inner[2] and inner[2][0][0] == "repeat":
                            buflen_expr = inner[2][0][2]
                continue
            e.exec_stmt(s_)
        elif s_[0] == "expr" and rp.strip_paren(s_[1])[0] in ("macro", "try"):
            continue
        else:
            e.exec_stmt(s_)
    tail = rp.strip_paren(body[2])
    if not (tail[0] == "call" and rp.show(tail[1]) == "Ok" and rp.strip_paren(tail[2][0])[0] == "struct"):
        raise Undecided("constructor of %s does not end in Ok(%s {..})" % (kind.T, kind.T))
    vals = {}
    for fname, val in rp.strip_paren(tail[2][0])[2]:
        if st.fields.get(fname, "").replace(" ", "") in ("usize", "f64", "f32", "isize"):
            vals[fname] = e.ev(val)
    bl = e.ev(buflen_expr) if buflen_expr is not None else None
    return vals, bl, e


def reset_vcs(read, T):
    kind = KINDS[T]
    src = read(kind.file)
    obs = []
    D = z3.Real("f32_slack")
    st = State(kind, src, ramp=True)
    env = st.env
    install_helpers(env, read, kind, src)
    fn = T + "::reset"
    vals, bl, ector = ctor_values(read, kind, src, st, env)
    # --- constructor establishes wf (on its own values)
    vcn = VC("%s.new" % T, T + "::new")
    vcn.assume(st.wf_cfg())
    if kind.fixed_in:
        vcn.assume(st.carve_in())
    e2 = ector.clone()
    e2.vars = dict(ector.vars)
    for f_, val in vals.items():
        e2.vars["self." + f_] = val
    vcn.take_side(ector)
    if bl is not None:
        vcn.assume(st.buflen == bl.t)
        if kind.fixed_in:
            vcn.goal("constructor sizes the buffer as max chunk + 2*L", bl.t == st.maxchunk + 2 * st.L)
    if not kind.fixed_in:
        vcn.assume(D == z3.Q(1, 2 ** 20) * (z3.ToReal(st.maxchunk) / (st.lo * (R(1) - z3.Q(1, 2 ** 30))) + z3.ToReal(st.L) + 16), D <= z3.Q(1, 4))
    if st.fill_is_ghost:
        # the all-zero initial buffer is a valid history for any recorded fill: the ghost starts as the chunk size
        vcn.assume(st.fill == st.maxchunk)
    tp0 = st.v("resample_ratio_original")
    for (lbl, g) in wf_post(st, e2, D, tp_new=tp0):
        vcn.goal("constructor: " + lbl, g)
    nv2 = lambda n: e2.vars["self." + n].t
    vcn.goal("constructor starts L/2 frames before the first input frame", nv2("last_index") == -z3.ToReal(st.L) / 2)
    obs += vcn.discharge(ector)
    # --- reset == constructor state, field by field (C10)
    vcr = VC("%s.reset" % T, fn)
    vcr.assume(st.wf_cfg())
    skipped = exec_method(env, src, kind, "reset")
    vcr.take_side(env)
    for f_ in sorted(vals):
        if f_ in ("nbr_channels",):
            continue
        after = env.vars["self." + f_]
        vcr.goal("C10 reset() leaves `%s` exactly as the constructor initialises it" % f_, after.t == vals[f_].t)
    obs += vcr.discharge(env)
    # --- reset zeroes all sample storage and re-activates every channel (syntactic, form-tolerant recogniser)
    from . import tierb_misc
    sigr, bodyr, l0r, _ = rp.find_fn(src, "reset", ["Resampler", "for " + kind.T + "<"])
    obs.append(tierb_misc.storage_obligation(T, fn, bodyr, "buffer", "C10 reset() zeroes every sample of every channel's history buffer"))
    obs.append(tierb_misc.storage_obligation(T, fn, bodyr, "channel_mask", "C10 reset() re-activates every channel", mask=True))
    return obs


# ------------------------------------------------------------------------------------------------
# Stage entry points

def _run_type(args):
    root, T, what = args
    import os
    read = lambda f: open(os.path.join(root, "src", f)).read()
    out = []
    for part, fn in (("process", process_vcs), ("process", postblock_vcs), ("process", estimate_vcs), ("setters", setter_vcs), ("reset", reset_vcs),
                     ("delay", delay_vcs), ("process", inmax_vcs), ("process", rampstep_vcs)):
        if part not in what:
            continue
        try:
            out += fn(read, T)
        except (Undecided, rp.ParseError) as e:
            out.append(Obligation("%s.%s :: extraction" % (T, part), "extraction", UNDECIDED, 0.0, "complete-real", [T], detail=str(e)))
        except Exception as e:      # a defect of the machinery is never an alarm
            import traceback
            out.append(Obligation("%s.%s :: extraction" % (T, part), "extraction", UNDECIDED, 0.0, "complete-real", [T],
                                  detail="internal error in the VC generator: %r\n%s" % (e, traceback.format_exc()[-1500:])))
    return out


def run_all(scratch, what=("process", "setters", "reset"), c17=False):
    """c17: keep only / drop the obligations labelled for C17 (conversions to the sample type belong to C17's check only)"""
    return [o for o in _run_all(scratch, what) if (":: C17 " in o.name) == c17]


def _run_all(scratch, what):
    import concurrent.futures as cf
    import multiprocessing as mp
    ctx = mp.get_context("fork")
    jobs = [(scratch.snap, T, what) for T in KINDS]
    res = []
    with cf.ProcessPoolExecutor(max_workers=4, mp_context=ctx) as ex:
        for r in ex.map(_run_type, jobs):
            res += r
    if "process" in what or "setters" in what:
        res += f32sum_lemma()
    return res


def f32sum_lemma():
    """L-f32sum (used by smt.Env.f32_sum for the f32 input-need formulas) derived from the rounding model instead of trusted: a left-to-
    right f32 sum of n <= 4 addends, each computed with at most three roundings (two conversions and a quotient: relative factor within
    (1+u)^2/(1-u), u = 2^-24), every addition rounding with relative error <= u, deviates from the exact sum by at most 2^-21 * sum|addend|.
    Induction on the partial sums: |s_k - S_k| <= B_k * M_k with B_1 = w, B_{k+1} = max(B_k, w)(1+u) + u; each step is one nonlinear real query."""
    from fractions import Fraction as Fr
    u = Fr(1, 2 ** 24)
    w = (1 + u) ** 2 / (1 - u) - 1
    q = lambda fr: z3.Q(fr.numerator, fr.denominator)
    out = []
    B = w
    fns = ["f32 input-need formulas (update_ratio / process_into_buffer post block of the fixed-output types)"]
    for k in range(2, 5):
        Bn = max(B, w) * (1 + u) + u
        s, S, M, a, ah, e = z3.Reals("s S M a ah e")
        mag = z3.If(a >= 0, a, -a)
        sv = z3.Solver()
        sv.set("timeout", 60000)
        sv.add(M >= 0, S <= M, S >= -M, s - S <= q(B) * M, s - S >= -q(B) * M, ah - a <= q(w) * mag, ah - a >= -q(w) * mag, e <= q(u), e >= -q(u))
        t0 = time.time()
        guard = sv.check()
        s2 = (s + ah) * (1 + e)
        sv.add(z3.Or(s2 - (S + a) > q(Bn) * (M + mag), s2 - (S + a) < -q(Bn) * (M + mag)))
        r = sv.check()
        st = DISCHARGED if (r == z3.unsat and guard == z3.sat) else (FAILED if r == z3.sat else UNDECIDED)
        out.append(Obligation("L-f32sum.induction_step(%d addends): |partial sum - exact| <= %.7f * 2^-24 * sum|addend|" % (k, float(Bn / u)),
                              "z3-%s" % z3.get_version_string(), st, time.time() - t0, "complete-real", fns, checks=2,
                              detail="" if st == DISCHARGED else "guard=%s goal=%s" % (guard, r)))
        B = Bn
    ok = B <= Fr(1, 2 ** 21)
    out.append(Obligation("L-f32sum.bound: the constant after 4 addends is below 2^-21", "exact rational arithmetic", DISCHARGED if ok else FAILED, 0.0,
                          "complete-real", fns, checks=1))
    return out


ASSUME_TEXT = [
    "Tier B numeric domain: chunk_size <= 2^16, ratios within [1/64, 64], sinc_len <= 4096 (multiple of 8), chunk/lowest ratio small "
    "enough that the f32 input-need formula is within 1/4 frame (D <= 1/4, i.e. max_chunk/min_ratio <= ~2^18)",
    "machine floats modelled as reals with a relative rounding error per operation (2^-53 / 2^-24), floor(x) <= fl(x) <= ceil(x), identical "
    "operations give identical results; overflow/underflow excluded by the domain",
    "lemma L-f32sum (an f32 sum of <= 4 converted addends is within 2^-21 * sum|addend| of the exact sum) is derived from that rounding model on every "
    "run (obligations L-f32sum.*), no longer trusted on its own",
    "carve-outs (known findings F5, F6, F11/F12): obligations are proved for calls that are not ramps (current ratio == target ratio), for fixed-input "
    "configurations with an integer A >= 1/min_ratio such that A <= L-4 and (A-1)*max_ratio <= 7, and for oversampling_factor >= 3 (Cubic, Quadratic) / >= 2 (Linear)",
    "callee contracts of get_nearest_time* are proved bit-precisely by Kani (kani/verif_interpolation__nearest.rs) and used modularly here",
]


def stage_for(prop, what=("process", "setters", "reset")):
    def stage(scratch, tier, log):
        obs = run_all(scratch, what, c17=(prop == "C17"))
        if prop == "C17":
            # vacuity guard: a type whose VCs were lost (undecided, filtered above) must not pass silently
            for T in KINDS:
                if not any(o.name.startswith(T + ".") for o in obs):
                    obs.append(Obligation("%s.process :: C17 conversion obligations were generated" % T, "extraction", UNDECIDED,
                                          detail="no conversion obligation was generated for %s (the step VCs of its arms are undecided or the anchors are lost); "
                                                 "run ./check C03 for the reason" % T, functions=[T + "::process_into_buffer"]))
        # native replay of function-level counterexamples (at most two per run)
        from . import replay_b
        n = 0
        for o in obs:
            if o.status == FAILED and o.counterexample and replay_b.replayable(o.name) and n < 2:
                n += 1
                try:
                    ok, text = replay_b.replay(scratch, o)
                except Exception as e:      # replay trouble is never an alarm by itself
                    ok, text = False, "replay machinery error: %r" % (e,)
                o.replayed = ok
                o.replay_text = text
        return obs
    stage.__name__ = "tierb_async_" + prop
    return stage
