"""Tier B core: symbolic execution of extracted Rust statements into Z3 terms.

Arithmetic model (DESIGN.md 2.3): integers are mathematical Ints with *explicit* range side conditions
(overflow, negative float->usize casts and division by zero are collected as obligations, not assumed
away); f64/f32 values are Reals.  In `slack` mode every float operation and every rounding cast yields
exact + d with a fresh d, |d| <= u*|exact| (u = 2^-53 for f64, 2^-24 for f32) - a sound
over-approximation of IEEE-754 round-to-nearest in the absence of overflow/underflow (excluded by the
configuration domain, which is listed as an assumption).  In `exact` mode (used for expression
equivalence) floats are plain reals.  floor/ceil/round and float->int casts are exact on the real value.
"""
import z3

from . import rsparse as rp
from .common import Undecided

U64 = z3.RealVal(1) / z3.RealVal(2 ** 53)
U32 = z3.RealVal(1) / z3.RealVal(2 ** 24)
USIZE_MAX = 2 ** 64 - 1
ISIZE_MAX = 2 ** 63 - 1

INT_TYPES = {"usize", "isize", "u8", "u16", "u32", "u64", "i8", "i16", "i32", "i64"}
FLOAT_TYPES = {"f64", "f32"}


def zabs(x):
    return z3.If(x >= 0, x, -x)


def zfloor(x):
    return z3.ToInt(x)


def zceil(x):
    return -z3.ToInt(-x)


class Val:
    __slots__ = ("t", "ty")

    def __init__(self, t, ty):
        self.t = t      # z3 term (or python tuple/list for tuples/arrays)
        self.ty = ty    # 'f64' | 'f32' | 'usize' | 'isize' | 'bool' | 'tuple' | 'intlit' | 'floatlit'

    def __repr__(self):
        return "Val(%s:%s)" % (self.t, self.ty)


class Env:
    """Symbolic state: variable name -> Val.  `self.x` fields are stored under 'self.x'."""

    def __init__(self, mode="slack", consts=None):
        self.mode = mode
        self.vars = {}
        self.path = []           # path condition (list of z3 bools)
        self.assumes = []        # global assumptions (rounding slack constraints, wf, ...)
        self.side = []           # side-condition obligations: (label, z3 bool that must hold, path copy, line)
        self.fresh_n = 0
        self.consts = consts or {}
        self.helpers = {}        # name -> callable(env, args:list[Val], node) -> Val
        self.methods = {}        # name -> callable(env, recv_expr, args, node) -> Val  (e.g. self.calc_needed_len())
        self.opaque = {}         # textual expr -> Val (lengths etc.)

    def clone(self):
        e = Env(self.mode, self.consts)
        e.vars = dict(self.vars)
        e.path = list(self.path)
        e.assumes = self.assumes      # shared on purpose (monotone)
        e.side = self.side            # shared
        e.helpers = self.helpers
        e.methods = self.methods
        if not hasattr(self, "_memo"):
            self._memo = {}
        e._memo = self._memo
        if not hasattr(self, "_defs"):
            self._defs = {}
        e._defs = self._defs
        e.resolve_fn = getattr(self, "resolve_fn", None)
        e.abs_slack = getattr(self, "abs_slack", None)
        e.opaque = self.opaque
        e._counter = self._counter if hasattr(self, "_counter") else [0]
        return e

    def fresh(self, base, sort="real"):
        if not hasattr(self, "_counter"):
            self._counter = [0]
        self._counter[0] += 1
        n = "%s!%d" % (base, self._counter[0])
        return z3.Real(n) if sort == "real" else (z3.Int(n) if sort == "int" else z3.Bool(n))

    # ---------------------------------------------------------------- rounding
    def define(self, var, formula):
        """an assumption that only constrains the fresh variable `var` (a rounding error, a contract result): it is
        dropped from queries in which `var` plays no role (cone of influence; dropping assumptions is sound)"""
        self.assumes.append(formula)
        if not hasattr(self, "_defs"):
            self._defs = {}
        self._defs[formula.get_id()] = var

    def rnd(self, exact, ty, monotone=False):
        """result of a float operation whose exact real value is `exact`"""
        if self.mode == "exact":
            return exact
        # IEEE operations are functions: the same operation on the same operands gives the same result
        if not hasattr(self, "_memo"):
            self._memo = {}
        key = (ty, exact.get_id())
        if key in self._memo:
            return self._memo[key]
        d = self.fresh("rnd")
        u = U64 if ty == "f64" else U32
        if monotone and ty == "f64" and getattr(self, "abs_slack", None) is not None:
            # additions on the position: absolute error bound E for |x| <= 2^19 (the range is an obligation)
            E = self.abs_slack
            self.side_cond("position arithmetic stays within +-2^19 (rounding error bound 2^-34)",
                           z3.And(exact <= 2 ** 19, exact >= -(2 ** 19)))
            self.define(d, z3.And(d <= E, d >= -E))
        else:
            a = zabs(exact)
            self.define(d, z3.And(d <= u * a, d >= -u * a))
        if monotone:
            # rounding is monotone and integers (< 2^53) are representable: floor(x) <= fl(x) <= ceil(x)
            self.define(d, z3.And(exact + d <= z3.ToReal(zceil(exact)), exact + d >= z3.ToReal(zfloor(exact))))
        self._memo[key] = exact + d
        self._keep = getattr(self, "_keep", []) + [exact]      # keep the AST alive so that ids stay unique
        return exact + d

    def side_cond(self, label, cond, node=None):
        ln = None
        if node is not None and isinstance(node[-1], int):
            ln = node[-1]
        self.side.append((label, cond, list(self.path), ln))

    # ---------------------------------------------------------------- variables
    def get(self, name):
        if name in self.vars:
            return self.vars[name]
        if name in self.consts:
            return self.consts[name]
        raise Undecided("unknown variable %r in extracted code" % name)

    def set(self, name, val):
        self.vars[name] = val

    def declare(self, name, ty):
        if ty in FLOAT_TYPES:
            v = Val(z3.Real(name), ty)
        elif ty in INT_TYPES:
            v = Val(z3.Int(name), ty)
        elif ty == "bool":
            v = Val(z3.Bool(name), ty)
        else:
            raise Undecided("cannot declare %s: %s" % (name, ty))
        self.vars[name] = v
        return v

    # ---------------------------------------------------------------- expressions
    def unify(self, a, b):
        """literal typing: an untyped literal adopts the other operand's type"""
        if a.ty == "floatlit" and b.ty in FLOAT_TYPES:
            a = Val(a.t, b.ty)
        if b.ty == "floatlit" and a.ty in FLOAT_TYPES:
            b = Val(b.t, a.ty)
        if a.ty == "intlit" and b.ty in INT_TYPES:
            a = Val(a.t, b.ty)
        if b.ty == "intlit" and a.ty in INT_TYPES:
            b = Val(b.t, a.ty)
        if a.ty == "floatlit" and b.ty == "floatlit":
            a, b = Val(a.t, "f64"), Val(b.t, "f64")
        if a.ty == "intlit" and b.ty == "intlit":
            a, b = Val(a.t, "intlit"), Val(b.t, "intlit")
        return a, b

    def ev(self, e):
        e = rp.strip_paren(e)
        k = e[0]
        if k == "num":
            txt, suf = e[1], e[2]
            if suf in FLOAT_TYPES or "." in txt or "e" in txt.lower() and not txt.lower().startswith("0x"):
                from fractions import Fraction
                fr = Fraction(txt)
                return Val(z3.RealVal(str(fr)), suf or "floatlit")
            iv = int(txt, 0)
            return Val(z3.IntVal(iv), suf or "intlit")
        if k == "lit":
            if e[1] == "true":
                return Val(z3.BoolVal(True), "bool")
            if e[1] == "false":
                return Val(z3.BoolVal(False), "bool")
            raise Undecided("literal %s" % e[1])
        if k == "path":
            name = "::".join(e[1])
            return self.get(name)
        if k == "field":
            txt = rp.show(e)
            if txt in self.vars:
                return self.vars[txt]
            base = self.ev(e[1]) if rp.show(e[1]) in self.vars or e[1][0] in ("index", "call", "mcall", "field") else None
            if base is not None and base.ty == "tuple":
                return base.t[int(e[2])]
            raise Undecided("unknown field %s" % txt)
        if k == "index":
            txt = rp.show(e)
            if txt in self.vars:
                return self.vars[txt]
            base = self.ev(e[1])
            if base.ty == "tuple":
                idx = rp.strip_paren(e[2])
                if idx[0] == "num":
                    return base.t[int(idx[1])]
            raise Undecided("indexing %s" % txt)
        if k == "tuple":
            return Val([self.ev(x) for x in e[1]], "tuple")
        if k == "array":
            return Val([self.ev(x) for x in e[1]], "tuple")
        if k == "repeat":
            n = rp.strip_paren(e[2])
            if n[0] == "num":
                v = self.ev(e[1])
                return Val([v for _ in range(int(n[1]))], "tuple")
            raise Undecided("repeat with non-literal length")
        if k == "unary":
            op = e[1]
            if op in ("&", "&mut", "*"):
                return self.ev(e[2])
            v = self.ev(e[2])
            if op == "-":
                return Val(-v.t, v.ty)
            if op == "!":
                if v.ty != "bool":
                    raise Undecided("bitwise not")
                return Val(z3.Not(v.t), "bool")
        if k == "cast":
            return self.cast(self.ev(e[1]), e[2].replace(" ", ""), e)
        if k == "binary":
            return self.binary(e)
        if k == "mcall":
            return self.mcall(e)
        if k == "call":
            fn = rp.show(e[1])
            if fn in self.helpers:
                return self.helpers[fn](self, [a for a in e[2]], e)
            if fn in ("T::coerce", "T::coerce_from"):
                v = self.ev(e[2][0])
                if v.ty in ("f64", "f32") and v.t is not None and not z3.is_rational_value(v.t):
                    # C17 (numerical half): a value that goes through the sample type loses |x| * eps(T); positions (which grow with
                    # the chunk size) must be reduced to a bounded offset in f64 *before* they are converted
                    self.side.append(("C17 a value converted to the sample type is a bounded offset, |x| <= 4, not a position: `%s`" % rp.show(e[2][0]),
                                      z3.And(v.t <= 4, v.t >= -4), list(self.path), getattr(self, "cur_line", 0)))
                return v
            res = getattr(self, "resolve_fn", None)
            if res is not None:
                got = res(fn)
                if got is not None:
                    params, body = got
                    sub = self.clone()
                    sub.vars = dict(self.vars)
                    for p_, a in zip(params, e[2]):
                        try:
                            sub.vars[p_] = self.ev(a)
                        except Undecided:
                            sub.vars[p_] = Val(None, "opaque")
                    for st in body[1]:
                        sub.exec_stmt(st)
                    if body[2] is None:
                        raise Undecided("inlined function %s has no value" % fn)
                    return sub.ev(body[2])
            raise Undecided("call of %s in extracted code" % fn)
        if k == "if":
            c = self.ev(e[1])
            if e[3] is None:
                raise Undecided("if without else used as value")
            a = self.block_value(e[2], c.t)
            b = self.block_value(e[3], z3.Not(c.t)) if e[3][0] == "block" else self.guarded(e[3], z3.Not(c.t))
            a, b = self.unify(a, b)
            if a.ty == "tuple":
                return Val([Val(z3.If(c.t, x.t, y.t), x.ty) for x, y in zip(a.t, b.t)], "tuple")
            return Val(z3.If(c.t, a.t, b.t), a.ty)
        if k == "block":
            return self.block_value(e, None)
        if k == "match":
            # the scrutinee is not modelled (an enum): each arm is possible; the value is a choice between the arms
            vals = []
            for (pat, guard, body) in e[2]:
                vals.append(self.ev(body) if body[0] != "block" else self.block_value(body, None))
            out = vals[-1]
            for v_ in reversed(vals[:-1]):
                a_, b_ = self.unify(v_, out)
                if a_.t.eq(b_.t):
                    out = a_
                    continue
                c = self.fresh("match_arm", "bool")
                out = Val(z3.If(c, a_.t, b_.t), a_.ty)
            return out
        if k == "macro" and e[1] in ("t",) and e[2]:
            return self.ev(e[2][0])
        raise Undecided("expression form %s not supported: %s" % (k, rp.show(e)[:120]))

    def guarded(self, e, cond):
        sub = self.clone()
        sub.path.append(cond)
        v = sub.ev(e)
        return v

    def block_value(self, blk, cond):
        sub = self.clone()
        if cond is not None:
            sub.path.append(cond)
        for st in blk[1]:
            sub.exec_stmt(st)
        if blk[2] is None:
            raise Undecided("block without value")
        return sub.ev(blk[2])

    def cast(self, v, ty, node):
        if v.ty == "floatlit":
            v = Val(v.t, "f64")
        if v.ty == "intlit":
            v = Val(v.t, "isize")
        if ty in FLOAT_TYPES:
            if v.ty in INT_TYPES:
                x = z3.ToReal(v.t)
                lim = 2 ** 53 if ty == "f64" else 2 ** 24
                if self.mode == "slack":
                    if not hasattr(self, "_memo"):
                        self._memo = {}
                    ck = ("cvt", ty, x.get_id())
                    if ck in self._memo:
                        return Val(self._memo[ck], ty)
                    # exact below the mantissa width, rounded above
                    d = self.fresh("cvt")
                    u = U64 if ty == "f64" else U32
                    self.define(d, z3.If(zabs(x) <= lim, d == 0, z3.And(d <= u * zabs(x), d >= -u * zabs(x))))
                    self._memo[ck] = x + d
                    self._keep = getattr(self, "_keep", []) + [x]
                    return Val(x + d, ty)
                return Val(x, ty)
            if v.ty == ty:
                return v
            if v.ty == "f32" and ty == "f64":
                return Val(v.t, "f64")
            if v.ty == "f64" and ty == "f32":
                return Val(self.rnd(v.t, "f32"), "f32")
        if ty in INT_TYPES:
            if v.ty in FLOAT_TYPES:
                x = v.t
                if ty.startswith("u"):
                    # Rust's float->int `as` saturates (defined, no panic): negative values give 0. Only the upper range
                    # is an obligation (a saturated huge count would be meaningless).
                    self.side_cond("float->%s cast in range" % ty, x < z3.RealVal(2) ** 63, node)
                    return Val(z3.If(x >= 0, zfloor(x), z3.IntVal(0)), ty)
                self.side_cond("float->%s cast in range" % ty, z3.And(x < z3.RealVal(2) ** 62, x > -(z3.RealVal(2) ** 62)), node)
                return Val(z3.If(x >= 0, zfloor(x), zceil(x)), ty)
            if v.ty in INT_TYPES:
                if ty.startswith("u") and not v.ty.startswith("u"):
                    self.side_cond("%s->%s cast of a negative value (wraps)" % (v.ty, ty), v.t >= 0, node)
                if ty.startswith("i") and v.ty.startswith("u"):
                    self.side_cond("%s->%s cast in range" % (v.ty, ty), v.t <= ISIZE_MAX, node)
                return Val(v.t, ty)
        raise Undecided("cast %s -> %s" % (v.ty, ty))

    def binary(self, e):
        op = e[1]
        if op in ("&&", "||"):
            a = self.ev(e[2])
            sub = self.clone()
            sub.path.append(a.t if op == "&&" else z3.Not(a.t))
            b = sub.ev(e[3])
            return Val(z3.And(a.t, b.t) if op == "&&" else z3.Or(a.t, b.t), "bool")
        a, b = self.unify(self.ev(e[2]), self.ev(e[3]))
        if op in ("==", "!=", "<", ">", "<=", ">="):
            if a.ty == "tuple":
                raise Undecided("tuple comparison")
            t = {"==": a.t == b.t, "!=": a.t != b.t, "<": a.t < b.t, ">": a.t > b.t, "<=": a.t <= b.t, ">=": a.t >= b.t}[op]
            return Val(t, "bool")
        ty = a.ty
        if ty in FLOAT_TYPES or ty == "floatlit":
            if ty == "floatlit":
                ty = "f64"
            if b.ty != a.ty and b.ty not in ("floatlit",):
                raise Undecided("mixed float types in %s" % rp.show(e))
            if op == "+":
                x = z3.simplify(2 * a.t) if a.t.eq(b.t) else a.t + b.t
            elif op == "-":
                x = a.t - b.t
            elif op == "*":
                x = a.t * b.t
            elif op == "/":
                self.side_cond("float division by zero", b.t != 0, e)
                x = z3.RealVal(0) if self.is_zero(a.t) else a.t / b.t
            else:
                raise Undecided("float operator %s" % op)
            if op in ("+", "-") and self.is_zero(b.t):
                x = a.t
            elif op == "+" and self.is_zero(a.t):
                x = b.t
            elif op == "*" and (self.is_zero(a.t) or self.is_zero(b.t)):
                x = z3.RealVal(0)
            # IEEE-exact special cases: recognised syntactically, an operand that is identically zero, or a result
            # that is identically zero (x - x)
            if self.is_zero(x):
                x = z3.RealVal(0)
            elif self.mode == "slack" and not self.exact_case(op, e, a, b) and not self.zero_case(op, a, b):
                x = self.rnd(x, ty, monotone=(op in ("+", "-") and ty == "f64"))
            return Val(x, ty)
        if ty in INT_TYPES or ty == "intlit":
            rty = ty if ty != "intlit" else (b.ty if b.ty != "intlit" else "intlit")
            if op == "+":
                x = a.t + b.t
            elif op == "-":
                x = a.t - b.t
            elif op == "*":
                x = a.t * b.t
            elif op == "/":
                self.side_cond("integer division by zero", b.t != 0, e)
                x = z3.If(a.t >= 0, a.t / b.t, -((-a.t) / b.t))  # truncation (b > 0 in all uses; checked)
                if rty.startswith("i"):
                    self.side_cond("signed division with positive divisor", b.t > 0, e)
            elif op == "%":
                self.side_cond("integer remainder by zero", b.t != 0, e)
                x = a.t % b.t
                if rty.startswith("i"):
                    self.side_cond("signed remainder with non-negative dividend", a.t >= 0, e)
            else:
                raise Undecided("integer operator %s" % op)
            if rty.startswith("u"):
                self.side_cond("%s arithmetic overflow/underflow in `%s`" % (rty, rp.show(e)[:80]),
                               z3.And(x >= 0, x <= USIZE_MAX), e)
            elif rty.startswith("i"):
                self.side_cond("%s arithmetic overflow in `%s`" % (rty, rp.show(e)[:80]),
                               z3.And(x >= -ISIZE_MAX - 1, x <= ISIZE_MAX), e)
            return Val(x, rty)
        raise Undecided("binary %s on %s" % (op, ty))

    @staticmethod
    def is_zero(t):
        st = z3.simplify(t)
        return z3.is_rational_value(st) and st.numerator_as_long() == 0

    def zero_case(self, op, a, b):
        """x + 0, x - 0, 0 * x, 0 / x are exact (the zero being a term that simplifies to 0, e.g. t - t)"""
        if op in ("+", "-") and (self.is_zero(a.t) or self.is_zero(b.t)):
            return True
        if op == "*" and (self.is_zero(a.t) or self.is_zero(b.t)):
            return True
        if op == "/" and self.is_zero(a.t):
            return True
        return False

    def exact_case(self, op, e, a, b):
        """x*1, x/1, x+0, x-0 and literal-literal folding are exact; 0.5*x is exact (power of two)."""
        for side in (rp.strip_paren(e[2]), rp.strip_paren(e[3])):
            if side[0] == "num":
                try:
                    v = float(side[1])
                except ValueError:
                    continue
                if op in ("*",) and v in (1.0, 0.5, 2.0, 0.25, 4.0):
                    return True
                if op in ("/",) and side is rp.strip_paren(e[3]) and v in (1.0, 2.0, 4.0, 0.5):
                    return True
                if op in ("+", "-") and v == 0.0:
                    return True
        # x + x is exact (doubling)
        if op == "+" and a.t.eq(b.t):
            return True
        # x - x.floor() is exact in IEEE arithmetic (the result needs no more significand bits than x)
        if op == "-":
            rhs = rp.strip_paren(e[3])
            if rhs[0] == "mcall" and rhs[2] == "floor" and not rhs[3] and rp.show(rhs[1]) == rp.show(rp.strip_paren(e[2])):
                return True
            lhs = rp.strip_paren(e[2])
            if rhs[0] == "path" and lhs[0] == "path" and rhs[1][0] == lhs[1][0] + "_floor":
                return True
        return False

    def f32_sum(self, e):
        """Lemma L-f32sum (derived from the rounding model on every run: tierb_async.f32sum_lemma): a left-to-right f32 sum of at most 4 addends, each a converted f64/usize
        value or a quotient of such (at most 3 roundings per addend), deviates from the exact real sum by at most
        2^-21 * sum|addend| (each addend: relative (1+2^-24)^3-1; three additions: relative 2^-24 on partial sums; no
        overflow/underflow in the configuration domain).  Returns a fresh real constrained accordingly, or None if `e`
        is not such a sum."""
        def addends(x):
            x = rp.strip_paren(x)
            if x[0] == "binary" and x[1] == "+":
                return addends(x[2]) + addends(x[3])
            return [x]
        parts = addends(e)
        if len(parts) < 2 or len(parts) > 4:
            return None
        key = ("f32sum", rp.show(e))
        ex = self.clone()
        ex.vars = dict(self.vars)
        ex.mode = "exact"
        ex.side = []
        ex.assumes = []
        vals = []
        for p_ in parts:
            try:
                v = ex.ev(p_)
            except Undecided:
                return None
            if v.ty != "f32":
                return None
            vals.append(v.t)
        # side conditions of the exact evaluation (division by zero ...) still count
        self.side.extend(ex.side)
        exact = vals[0]
        mag = zabs(vals[0])
        for t in vals[1:]:
            exact = exact + t
            mag = mag + zabs(t)
        if not hasattr(self, "_memo"):
            self._memo = {}
        k = ("f32sum", exact.get_id())
        if k in self._memo:
            return self._memo[k]
        x = self.fresh("f32sum")
        self.define(x, z3.And(x - exact <= z3.Q(1, 2 ** 21) * mag, x - exact >= -z3.Q(1, 2 ** 21) * mag))
        self._memo[k] = x
        self._keep = getattr(self, "_keep", []) + [exact]
        return x

    def mcall(self, e):
        recv, name, args = e[1], e[2], e[3]
        txt = rp.show(e)
        if txt in self.opaque:
            return self.opaque[txt]
        if name in self.methods and rp.show(recv) in ("self", "Self"):
            return self.methods[name](self, recv, args, e)
        if name in ("floor", "ceil") and self.mode == "slack":
            m = self.f32_sum(recv)
            if m is not None:
                return Val(z3.ToReal(zfloor(m) if name == "floor" else zceil(m)), "f32")
        if name in ("floor", "ceil", "round", "abs", "sqrt", "min", "max", "is_finite", "is_nan", "clamp"):
            v = self.ev(recv)
            if v.ty == "floatlit":
                v = Val(v.t, "f64")
            if name == "floor":
                return Val(z3.ToReal(zfloor(v.t)), v.ty)
            if name == "ceil":
                return Val(z3.ToReal(zceil(v.t)), v.ty)
            if name == "round":
                return Val(z3.ToReal(z3.If(v.t >= 0, zfloor(v.t + z3.RealVal("1/2")), zceil(v.t - z3.RealVal("1/2")))), v.ty)
            if name == "abs":
                return Val(zabs(v.t), v.ty)
            if name in ("min", "max"):
                w = self.ev(args[0])
                v, w = self.unify(v, w)
                c = v.t <= w.t if name == "min" else v.t >= w.t
                return Val(z3.If(c, v.t, w.t), v.ty)
            if name == "is_finite":
                return Val(z3.BoolVal(True), "bool")
            if name == "is_nan":
                return Val(z3.BoolVal(False), "bool")
        if name in ("as_ref", "as_mut", "iter", "clone", "copied", "into"):
            return self.ev(recv)
        raise Undecided("method call %s not supported in extracted code" % txt[:120])

    # ---------------------------------------------------------------- statements
    def assign_to(self, lhs, val):
        lhs = rp.strip_paren(lhs)
        if lhs[0] == "unary" and lhs[1] == "*":
            lhs = rp.strip_paren(lhs[2])
        if lhs[0] == "index":
            base = rp.show(lhs[1])
            idx = rp.strip_paren(lhs[2])
            if base in self.vars and self.vars[base].ty == "tuple" and idx[0] == "num":
                items = list(self.vars[base].t)
                items[int(idx[1])] = val
                self.vars[base] = Val(items, "tuple")
                return
            if base in self.vars and self.vars[base].ty == "tuple":
                i = self.ev(idx)
                items = [Val(z3.If(i.t == j, val.t, old.t), old.ty) if old.ty != "tuple" else
                         Val([Val(z3.If(i.t == j, nv.t, ov.t), ov.ty) for nv, ov in zip(val.t, old.t)], "tuple")
                         for j, old in enumerate(self.vars[base].t)]
                self.vars[base] = Val(items, "tuple")
                return
            raise Undecided("assignment to %s" % rp.show(lhs))
        name = rp.show(lhs)
        if name in self.vars:
            old = self.vars[name]
            if val.ty in ("floatlit", "intlit") and old.ty not in ("tuple", "uninit"):
                val = Val(val.t, old.ty)
        self.vars[name] = val

    def exec_stmt(self, st):
        k = st[0]
        if k == "let":
            pat, ty, init = st[1], st[2], st[3]
            if init is None:
                for n in pat[2]:
                    self.vars[n] = Val(None, "uninit")
                return
            v = self.ev(init)
            if ty:
                t = ty.replace(" ", "")
                if v.ty == "floatlit" and t in FLOAT_TYPES:
                    v = Val(v.t, t)
                if v.ty == "intlit" and t in INT_TYPES:
                    v = Val(v.t, t)
            if len(pat[2]) == 1 and not pat[1].strip().startswith("("):
                if v.ty == "intlit":
                    v = Val(v.t, "usize")     # Rust's default would be i32; all uses here are indices/counters
                if v.ty == "floatlit":
                    v = Val(v.t, "f64")
                self.vars[pat[2][0]] = v
            elif v.ty == "tuple" and len(pat[2]) == len(v.t):
                for n, x in zip(pat[2], v.t):
                    self.vars[n] = x
            else:
                raise Undecided("let pattern %s" % pat[1])
            return
        if k == "expr":
            self.exec_expr(st[1])
            return
        if k == "item":
            return
        raise Undecided("statement kind %s" % k)

    def exec_expr(self, e):
        e = rp.strip_paren(e)
        k = e[0]
        if k == "assign":
            op, lhs, rhs = e[1], e[2], e[3]
            if op == "=":
                self.assign_to(lhs, self.ev(rhs))
            else:
                self.assign_to(lhs, self.ev(("binary", op[:-1], lhs, rhs)))
            return
        if k == "if":
            c = self.ev(e[1])
            # `if cond { return Err(..); }`: under the contract's precondition the error exit is not taken (obligation)
            tb = e[2]
            last = tb[1][-1] if tb[1] else None
            lastx = rp.strip_paren(last[1]) if (last is not None and last[0] == "expr") else (rp.strip_paren(tb[2]) if tb[2] is not None else None)
            if e[3] is None and lastx is not None and lastx[0] == "return":
                self.side_cond("valid arguments do not take the error exit `if %s`" % rp.show(e[1])[:60], z3.Not(c.t), e)
                self.path.append(z3.Not(c.t))
                return
            a = self.clone()
            a.path.append(c.t)
            for st in e[2][1]:
                a.exec_stmt(st)
            if e[2][2] is not None:
                a.exec_expr(e[2][2])
            b = self.clone()
            b.path.append(z3.Not(c.t))
            if e[3] is not None:
                if e[3][0] == "block":
                    for st in e[3][1]:
                        b.exec_stmt(st)
                    if e[3][2] is not None:
                        b.exec_expr(e[3][2])
                else:
                    b.exec_expr(e[3])
            # merge
            names = set(a.vars) | set(b.vars)
            for n in names:
                if n in a.vars and n in b.vars and n in self.vars:
                    va, vb = a.vars[n], b.vars[n]
                    if va is vb:
                        continue
                    self.vars[n] = merge(c.t, va, vb)
            return
        if k == "block":
            for st in e[1]:
                self.exec_stmt(st)
            if e[2] is not None:
                self.exec_expr(e[2])
            return
        if k == "iflet":
            # the scrutinee (an enum / Option) is not modelled: both outcomes are possible
            c = self.fresh("iflet_taken", "bool")
            fake = ("if", ("path", ["__iflet__"]), e[3], e[4], 0)
            self.vars["__iflet__"] = Val(c, "bool")
            self.exec_expr(fake)
            self.vars.pop("__iflet__", None)
            return
        if k == "macro":
            if e[1] in ("trace", "debug", "info", "warn", "error", "debug_assert", "println"):
                return
            raise Undecided("macro %s! in extracted code" % e[1])
        if k in ("mcall", "call"):
            fn = rp.show(e[1]) if k == "call" else e[2]
            if k == "call" and fn in self.helpers:
                self.helpers[fn](self, e[2], e)
                return
            if k == "mcall" and e[2] in self.methods:
                self.methods[e[2]](self, e[1], e[3], e)
                return
            raise Undecided("effectful call %s in extracted code" % rp.show(e)[:100])
        if k == "unsafe":
            self.exec_expr(e[1])
            return
        if k == "for":
            # only loops over literal integer ranges (optionally .enumerate()) are executed: they are unrolled
            pat, it, body = e[1], rp.strip_paren(e[2]), e[3]
            enum = False
            if it[0] == "mcall" and it[2] == "enumerate" and not it[3]:
                enum = True
                it = rp.strip_paren(it[1])

            def lit(x):
                x = rp.strip_paren(x)
                if x[0] == "num":
                    return int(x[1], 0)
                if x[0] == "unary" and x[1] == "-" and rp.strip_paren(x[2])[0] == "num":
                    return -int(rp.strip_paren(x[2])[1], 0)
                raise Undecided("loop bound is not a literal: %s" % rp.show(x))
            if it[0] != "range" or it[1] is None or it[2] is None:
                raise Undecided("loop over %s in extracted straight-line code" % rp.show(it)[:60])
            a, b = lit(it[1]), lit(it[2]) + (1 if it[3] else 0)
            if b - a > 16:
                raise Undecided("literal loop too long to unroll")
            names = pat[2]
            for i, val in enumerate(range(a, b)):
                if enum:
                    if len(names) != 2:
                        raise Undecided("enumerate pattern %s" % pat[1])
                    self.vars[names[0]] = Val(z3.IntVal(i), "usize")
                    self.vars[names[1]] = Val(z3.IntVal(val), "isize")
                else:
                    self.vars[names[0]] = Val(z3.IntVal(val), "isize")
                for st in body[1]:
                    self.exec_stmt(st)
                if body[2] is not None:
                    self.exec_expr(body[2])
            return
        raise Undecided("expression statement %s" % rp.show(e)[:100])


def merge(c, va, vb):
    if va.ty == "tuple":
        return Val([merge(c, x, y) for x, y in zip(va.t, vb.t)], "tuple")
    if va.ty == "uninit":
        return vb
    if vb.ty == "uninit":
        return va
    return Val(z3.If(c, va.t, vb.t), va.ty if va.ty not in ("intlit", "floatlit") else vb.ty)


# --------------------------------------------------------------------------------------------------
def check_valid(assumptions, goal, timeout_ms=30000, nl_hint=False):
    """Is  /\\ assumptions => goal  valid?  returns ('valid'|'invalid'|'unknown', model-or-None, seconds)"""
    import time
    t0 = time.time()
    s = z3.Solver()
    s.set("timeout", timeout_ms)
    for a in assumptions:
        s.add(a)
    s.add(z3.Not(goal))
    r = s.check()
    if r == z3.unknown:
        # one retry with another seed: non-linear queries close to the limit are seed-sensitive
        s2 = z3.Solver()
        s2.set("timeout", timeout_ms)
        s2.set("random_seed", 7)
        z3.set_param("smt.random_seed", 7)
        for a in assumptions:
            s2.add(a)
        s2.add(z3.Not(goal))
        r = s2.check()
        z3.set_param("smt.random_seed", 0)
        s = s2
    dt = time.time() - t0
    if r == z3.unsat:
        return "valid", None, dt
    if r == z3.sat:
        return "invalid", s.model(), dt
    return "unknown", None, dt


def free_vars(t, cache={}):
    """names of the uninterpreted constants of a term (cached by AST id)"""
    k = t.get_id()
    if k in cache:
        return cache[k]
    out = set()
    todo = [t]
    seen = set()
    while todo:
        x = todo.pop()
        i = x.get_id()
        if i in seen:
            continue
        seen.add(i)
        if z3.is_const(x) and x.decl().kind() == z3.Z3_OP_UNINTERPRETED:
            out.add(x.decl().name())
        else:
            todo.extend(x.children())
    cache[k] = out
    cache.setdefault("_keep", []).append(t)
    return out


def cone(assumptions, defs, goal_terms):
    """Assumptions relevant to the goal: every untagged assumption, plus the tagged ones (definitions of fresh
    variables) whose variable is reachable from the goal / the untagged assumptions."""
    plain, tagged = [], []
    for a in assumptions:
        dv = defs.get(a.get_id())
        if dv is None:
            plain.append(a)
        else:
            tagged.append((dv.decl().name(), a))
    rel = set()
    for t in goal_terms:
        rel |= free_vars(t)
    for a in plain:
        rel |= free_vars(a)
    inc = []
    changed = True
    pending = list(tagged)
    while changed:
        changed = False
        rest = []
        for (dv, a) in pending:
            if dv in rel:
                inc.append(a)
                rel |= free_vars(a)
                changed = True
            else:
                rest.append((dv, a))
        pending = rest
    return plain + inc


def model_dict(model, limit=60):
    out = {}
    for d in model.decls():
        n = d.name()
        if "!" in n:
            continue
        v = model[d]
        try:
            if z3.is_rational_value(v):
                out[n] = float(v.numerator_as_long()) / float(v.denominator_as_long())
            elif z3.is_int_value(v):
                out[n] = v.as_long()
            elif z3.is_algebraic_value(v):
                out[n] = float(v.approx(20).numerator_as_long()) / float(v.approx(20).denominator_as_long())
            else:
                out[n] = str(v)
        except Exception:
            out[n] = str(v)
        if len(out) >= limit:
            break
    return out
