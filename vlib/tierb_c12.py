"""Tier B obligations for C12: the accept/reject conditions of the four ratio setters are, as
*expressions over IEEE doubles*, the conditions the property names.

Deciding step: the condition extracted from /repo's current source text must be the same expression
tree as the specification (identical float expressions evaluate identically for every input);
otherwise the question is handed to a bit-precise Kani harness over symbolic (original, max, argument)
on the compiled code (counterexample -> violation replayed natively; success -> discharged; solver
limit -> undecided).  This covers all (original, max, argument) triples, which the bit-precise
Kani harnesses cannot (the equivalence of two 53-bit dividers does not terminate in CBMC).
"""
import time

from . import rsparse as rp, syn
from .common import DISCHARGED, FAILED, UNDECIDED, Obligation, Undecided

TYPES = [("FastFixedIn", "asynchro_fast.rs"), ("FastFixedOut", "asynchro_fast.rs"),
         ("SincFixedIn", "asynchro_sinc.rs"), ("SincFixedOut", "asynchro_sinc.rs")]

SPEC_ABS = "new_ratio >= self.resample_ratio_original / self.max_relative_ratio && new_ratio <= self.resample_ratio_original * self.max_relative_ratio"
SPEC_REL = "rel_ratio >= 1.0 / self.max_relative_ratio && rel_ratio <= self.max_relative_ratio"
SPEC_REL_VALUE = "self.resample_ratio_original * rel_ratio"


def norm(e):
    """Drop parentheses everywhere."""
    e = rp.strip_paren(e)
    k = e[0]
    if k == "binary":
        return ("binary", e[1], norm(e[2]), norm(e[3]))
    if k == "unary":
        return ("unary", e[1], norm(e[2]))
    if k == "field":
        return ("field", norm(e[1]), e[2])
    if k == "cast":
        return ("cast", norm(e[1]), e[2])
    if k == "mcall":
        return ("mcall", norm(e[1]), e[2], [norm(a) for a in e[3]])
    if k == "call":
        return ("call", norm(e[1]), [norm(a) for a in e[2]])
    return e


def subst(e, env):
    """Substitute let-bound locals by their defining expressions."""
    e = rp.strip_paren(e)
    k = e[0]
    if k == "path" and len(e[1]) == 1 and e[1][0] in env:
        return env[e[1][0]]
    if k == "binary":
        return ("binary", e[1], subst(e[2], env), subst(e[3], env))
    if k == "unary":
        return ("unary", e[1], subst(e[2], env))
    if k == "field":
        return ("field", subst(e[1], env), e[2])
    if k == "cast":
        return ("cast", subst(e[1], env), e[2])
    return e


def compare(name, fn, got, spec_text, scratch, T, setter, argname, log, value=False):
    """One obligation: `got` (AST from the code) must equal the spec expression."""
    spec = norm(rp.parse_expr(spec_text))
    gotn = norm(got)
    t0 = time.time()
    if rp.show(gotn) == rp.show(spec):
        return Obligation(name, "expression-identity", DISCHARGED, time.time() - t0, "complete", [fn],
                          detail="code: %s" % rp.show(gotn), checks=1)
    if value:
        # a *value* that is not the documented expression: compare over the reals (fields as arbitrary positive reals)
        import z3
        from . import smt
        try:
            env = smt.Env("exact")
            for nm in ("self.resample_ratio_original", "self.max_relative_ratio", "self.resample_ratio", "self.target_ratio", "new_ratio", "rel_ratio"):
                env.declare(nm, "f64")
            va, vb = env.ev(gotn), env.ev(spec)
            pos = [v_.t > 0 for v_ in env.vars.values()]
            res, model, secs = smt.check_valid(pos, va.t == vb.t, 20000)
        except Undecided as ex:
            return Obligation(name, "z3", UNDECIDED, time.time() - t0, "complete", [fn], detail="cannot compare `%s` with `%s`: %s" % (rp.show(gotn), rp.show(spec), ex))
        if res == "valid":
            return Obligation(name, "z3", DISCHARGED, secs, "complete-real", [fn], checks=1,
                              detail="code applies `%s`, equal to `%s` over the reals" % (rp.show(gotn), rp.show(spec)))
        if res == "invalid":
            md = smt.model_dict(model)
            return Obligation(name, "z3", FAILED, secs, "complete", [fn], checks=1, counterexample=md,
                              detail="the accepted call applies `%s`, the property requires `%s`; they differ e.g. at %s" % (rp.show(gotn), rp.show(spec), md))
        return Obligation(name, "z3", UNDECIDED, secs, "complete", [fn], detail="Z3 unknown on `%s` == `%s`" % (rp.show(gotn), rp.show(spec)))
    # Not the documented expression: hand the question to the bit-precise verifier on the compiled code
    # (Kani harness over symbolic original/max/argument).  A counterexample there is replayed natively;
    # success there discharges this obligation; a solver limit leaves it undecided.
    tshort = {"FastFixedIn": "fastin", "FastFixedOut": "fastout", "SincFixedIn": "sincin", "SincFixedOut": "sincout"}[T]
    ob = Obligation(name, "expression-identity", UNDECIDED, time.time() - t0, "complete", [fn],
                    detail="code has `%s` where the property requires `%s`; deferred to the bit-precise fallback harness" % (
                        rp.show(gotn), rp.show(spec)), checks=1)
    ob.fallback_harness = "c12_%s_%s_iff_sym" % (tshort, "set_ratio" if setter == "set_resample_ratio" else "set_relative")
    return ob


def effective(src, impl, fn_name, depth=0):
    """(condition, applied value) of a setter, both as expressions over self.* and the setter's own parameter,
    with let-bound locals substituted; follows a delegation to set_resample_ratio and a call of update_ratio."""
    sig, body, l0, _ = rp.find_fn(src, fn_name, impl)
    env = {}
    node = None
    early = False
    early_cond = None
    early_val = None
    items = list(body[1]) + ([("expr", body[2], False, 0)] if body[2] is not None else [])
    for st in items:
        if st[0] == "let" and st[3] is not None and len(st[1][2]) == 1:
            env[st[1][2][0]] = subst(st[3], env)
        elif st[0] == "expr" and st[1][0] == "macro":
            continue
        elif st[0] == "expr" and st[1][0] == "if" and node is None:
            node = st[1]
            # early-return form: `if !COND { return Err(..); }` followed by the update
            tb = node[2]
            lastx = rp.strip_paren(tb[1][-1][1]) if (tb[1] and tb[1][-1][0] == "expr") else (rp.strip_paren(tb[2]) if tb[2] is not None else None)
            if node[3] is None and lastx is not None and lastx[0] == "return" and lastx[1] is not None and rp.show(lastx[1]).startswith("Err("):
                c = rp.strip_paren(subst(node[1], env))
                early_cond = c[2] if (c[0] == "unary" and c[1] == "!") else ("unary", "!", c)
                early = True
                node = None
                continue
        elif st[0] == "expr" and st[1][0] == "mcall" and st[1][2] == "set_resample_ratio" and rp.show(st[1][1]) == "self" \
                and depth == 0 and len(st[1][3]) == 2:
            cond, val = effective(src, impl, "set_resample_ratio", 1)
            arg = subst(st[1][3][0], env)
            return subst(cond, {"new_ratio": arg}), subst(val, {"new_ratio": arg})
        elif early and st[0] == "expr" and st[1][0] == "mcall" and st[1][2] == "update_ratio" and rp.show(st[1][1]) == "self" and st[1][3]:
            early_val = subst(st[1][3][0], env)
        elif early and st[0] == "expr" and st[1][0] == "assign" and rp.show(st[1][2]) == "self.target_ratio":
            early_val = subst(st[1][3], env)
        elif early and st[0] == "expr" and rp.show(st[1]) == "Ok(())":
            continue
        elif early and st[0] == "expr" and st[1][0] in ("if", "assign", "mcall"):
            continue
        else:
            raise Undecided("unexpected statement in %s: %s" % (fn_name, rp.show(st)))
    if early:
        if early_val is None:
            raise Undecided("%s: early-return form without an update of the target ratio" % fn_name)
        return rp.strip_paren(subst(early_cond, env)) if False else early_cond, early_val
    if node is None:
        raise Undecided("%s has neither a top-level if/else nor a delegation" % fn_name)
    cond = subst(node[1], env)
    val = None
    for st in node[2][1]:
        e = st[1] if st[0] == "expr" else None
        if e is None:
            continue
        if e[0] == "assign" and e[1] == "=" and rp.show(e[2]) == "self.target_ratio":
            val = subst(e[3], env)
        if e[0] == "mcall" and e[2] == "update_ratio" and rp.show(e[1]) == "self" and e[3]:
            val = subst(e[3][0], env)
    if val is None:
        raise Undecided("accepted branch of %s neither assigns self.target_ratio nor calls self.update_ratio" % fn_name)
    return cond, val


CONFIG_FIELDS = {
    "FastFixedIn": ["resample_ratio_original", "max_relative_ratio", "nbr_channels", "chunk_size"],
    "FastFixedOut": ["resample_ratio_original", "max_relative_ratio", "nbr_channels", "chunk_size"],
    "SincFixedIn": ["resample_ratio_original", "max_relative_ratio", "nbr_channels", "max_chunk_size"],
    "SincFixedOut": ["resample_ratio_original", "max_relative_ratio", "nbr_channels", "max_chunk_size"],
}


def config_frame(scratch):
    """The bounds the setters compare against are the *construction-time* values: no method other than the
    constructors assigns original ratio, max relative ratio, channel count or the (maximum) chunk size."""
    import re
    obs = []
    for T, f in TYPES:
        src = scratch.read(f)
        name = "C12.%s.construction_time_bounds_never_reassigned" % T
        fn = T + "::*"
        try:
            sigs = syn.self_method_sigs(src)
            bad = []
            nfn = 0
            for (h, s0, e0) in rp.find_impls(rp.strip_tests(src)):
                if not re.search(r"\b%s<" % T, h):
                    continue
                for m in re.finditer(r"\bfn\s+([A-Za-z_][A-Za-z0-9_]*)", rp.strip_tests(src)[s0:e0]):
                    mname = m.group(1)
                    if mname in ("new", "new_with_interpolator"):
                        continue
                    try:
                        sig, body, l0, _ = rp.find_fn(src, mname, [h.split("{")[0].strip()[:40]])
                    except rp.ParseError:
                        continue
                    nfn += 1
                    for (place, how, ln) in syn.collect_writes(body, sigs):
                        if place in ["self." + x for x in CONFIG_FIELDS[T]]:
                            bad.append("%s: %s" % (mname, how))
            if nfn < 8:
                raise Undecided("anchor lost: only %d methods of %s found" % (nfn, T))
            if bad:
                obs.append(Obligation(name, "syntactic", FAILED, 0.0, "complete", [fn], checks=nfn,
                                      detail="construction-time configuration is modified after construction, so the documented ranges "
                                             "(1..=construction-time chunk size, original/max..original*max) are no longer what the setters test: " + "; ".join(bad)))
            else:
                obs.append(Obligation(name, "syntactic", DISCHARGED, 0.0, "complete", [fn], checks=nfn,
                                      detail="%d methods scanned, none assigns %s" % (nfn, ", ".join(CONFIG_FIELDS[T]))))
        except (rp.ParseError, Undecided) as e:
            obs.append(Obligation(name, "extraction", UNDECIDED, detail=str(e), functions=[fn]))
    return obs


def stage(scratch, tier, log):
    obs = config_frame(scratch)
    for T, f in TYPES:
        src = scratch.read(f)
        impl = ["Resampler", "for " + T + "<"]
        for setter, arg, spec_c, spec_v, n1, n2 in (
                ("set_resample_ratio", "new_ratio", SPEC_ABS, "new_ratio", "condition_is_documented_range", "applies_its_argument"),
                ("set_resample_ratio_relative", "rel_ratio", SPEC_REL, SPEC_REL_VALUE, "condition_is_documented_range",
                 "applies_original_times_x")):
            fn = "%s::%s" % (T, setter)
            try:
                cond, val = effective(src, impl, setter)
                obs.append(compare("C12.%s.%s.%s" % (T, setter, n1), fn, cond, spec_c, scratch, T, setter, arg, log))
                obs.append(compare("C12.%s.%s.%s" % (T, setter, n2), fn, val, spec_v, scratch, T, setter, arg, log, value=True))
            except (rp.ParseError, Undecided) as e:
                obs.append(Obligation("C12.%s.%s.%s" % (T, setter, n1), "extraction", UNDECIDED, detail=str(e), functions=[fn]))
    return obs
