"""Native replay for failed C09 Kani obligations: the harness's history is run through the *public API* of the snapshot in a
normal build with a counting #[global_allocator]; any allocator call between construction and drop reproduces the violation
on the real code (real sinc interpolator / real realfft plans instead of the harness stand-ins)."""
import re

from . import native

PROGRAM = r'''
use rubato::*;
use std::alloc::{GlobalAlloc, Layout, System};
use std::sync::atomic::{AtomicBool, AtomicUsize, Ordering};

struct Counting;
static ON: AtomicBool = AtomicBool::new(false);
static ALLOCS: AtomicUsize = AtomicUsize::new(0);
static REALLOCS: AtomicUsize = AtomicUsize::new(0);
static FREES: AtomicUsize = AtomicUsize::new(0);
unsafe impl GlobalAlloc for Counting {
    unsafe fn alloc(&self, l: Layout) -> *mut u8 { if ON.load(Ordering::Relaxed) { ALLOCS.fetch_add(1, Ordering::Relaxed); } System.alloc(l) }
    unsafe fn alloc_zeroed(&self, l: Layout) -> *mut u8 { if ON.load(Ordering::Relaxed) { ALLOCS.fetch_add(1, Ordering::Relaxed); } System.alloc_zeroed(l) }
    unsafe fn realloc(&self, p: *mut u8, l: Layout, n: usize) -> *mut u8 { if ON.load(Ordering::Relaxed) { REALLOCS.fetch_add(1, Ordering::Relaxed); } System.realloc(p, l, n) }
    unsafe fn dealloc(&self, p: *mut u8, l: Layout) { if ON.load(Ordering::Relaxed) { FREES.fetch_add(1, Ordering::Relaxed); } System.dealloc(p, l) }
}
#[global_allocator]
static A: Counting = Counting;

fn counts() -> (usize, usize, usize) { (ALLOCS.load(Ordering::Relaxed), REALLOCS.load(Ordering::Relaxed), FREES.load(Ordering::Relaxed)) }

fn history<R: Resampler<f64>>(r: &mut R, adjustable: bool, chunkable: bool) -> bool {
    let win = vec![vec![0.5f64; r.input_frames_max() + 3]; 1];
    let mut wout = vec![vec![0.0f64; r.output_frames_max() + 1]; 1];
    let mut ok = true;
    // nothing is printed (stdout allocates its buffer lazily) or pushed while counting: fixed-size log
    let mut log: [(&str, usize, usize, usize); 16] = [("", 0, 0, 0); 16];
    let mut nlog = 0usize;
    let mut step = |what: &'static str, before: (usize, usize, usize)| {
        let c = counts();
        if c != before && nlog < 16 { log[nlog] = (what, c.0 - before.0, c.1 - before.1, c.2 - before.2); nlog += 1; }
        c
    };
    ON.store(true, Ordering::Relaxed);
    let mut c = counts();
    let _ = (r.output_delay(), r.nbr_channels(), r.input_frames_max(), r.output_frames_max(), r.output_frames_next());
    c = step("getters", c);
    if adjustable { ok &= r.set_resample_ratio_relative(0.25, false).is_ok(); c = step("set_resample_ratio_relative(0.25, false)", c); }
    if chunkable { ok &= r.set_chunk_size(2).is_ok(); c = step("set_chunk_size(2)", c); }
    let n = r.input_frames_next();
    ok &= r.process_into_buffer(&[&win[0][..n + 2]], &mut wout, None).is_ok();
    c = step("process_into_buffer #1 (over-long input slice)", c);
    if adjustable { ok &= r.set_resample_ratio(4.0, true).is_ok(); c = step("set_resample_ratio(4.0, ramp)", c); }
    if chunkable { ok &= r.set_chunk_size(3).is_ok(); c = step("set_chunk_size(3)", c); }
    for k in 0..4 {
        let n = r.input_frames_next();
        ok &= r.process_into_buffer(&[&win[0][..n + (k % 2) * 3]], &mut wout, if k == 1 { Some(&[true]) } else { None }).is_ok();
        c = step("process_into_buffer (ramp / later calls)", c);
    }
    r.reset();
    c = step("reset", c);
    let n = r.input_frames_next();
    ok &= r.process_into_buffer(&[&win[0][..n]], &mut wout, None).is_ok();
    let _ = step("process_into_buffer after reset", c);
    ON.store(false, Ordering::Relaxed);
    for e in log.iter().take(nlog) { println!("heap traffic during {}: +{} alloc, +{} realloc, +{} dealloc", e.0, e.1, e.2, e.3); }
    ok
}

fn main() {
    @BUILD@
    let ok = history(&mut r, @ADJ@, @CHUNK@);
    let c = counts();
    println!("valid history: {}; allocator calls between construction and drop: {} alloc, {} realloc, {} dealloc", ok, c.0, c.1, c.2);
    if c != (0, 0, 0) { std::process::exit(1); }
}
'''

FAST_ARM = {"wide_range": "Linear", "cubic": "Cubic", "septic": "Septic", "quintic": "Quintic", "linear": "Linear", "nearest": "Nearest"}
SINC_ARM = {"wide_range": "Linear", "cubic": "Cubic", "quadratic": "Quadratic", "linear": "Linear", "nearest": "Nearest", "set_chunk_size": "Linear"}


def program(name):
    m = re.match(r"C09\.(\w+)\.compiled_history\.no_heap_traffic(?:\.(\w+))?$", name)
    if not m:
        return None
    T, arm = m.group(1), (m.group(2) or "")
    if T in ("FastFixedIn", "FastFixedOut"):
        build = "let mut r = %s::<f64>::new(1.0, 4.0, PolynomialDegree::%s, 3, 1).unwrap();" % (T, FAST_ARM.get(arm, "Cubic"))
        adj, chunk = "true", "false"
    elif T in ("SincFixedIn", "SincFixedOut"):
        build = ("let p = SincInterpolationParameters { sinc_len: 8, f_cutoff: 0.9, oversampling_factor: 4, interpolation: SincInterpolationType::%s, "
                 "window: WindowFunction::Hann };\n    let mut r = %s::<f64>::new(1.0, 4.0, p, 3, 1).unwrap();") % (SINC_ARM.get(arm, "Cubic"), T)
        adj, chunk = ("false", "true") if arm == "set_chunk_size" else ("true", "false")
    elif T in ("FftFixedIn", "FftFixedOut"):
        build = "let mut r = %s::<f64>::new(2, 3, 5, 1, 1).unwrap();" % T
        adj, chunk = "false", "false"
    elif T == "FftFixedInOut":
        build = "let mut r = FftFixedInOut::<f64>::new(2, 3, 2, 1).unwrap();"
        adj, chunk = "false", "false"
    else:
        return None
    prog = PROGRAM
    if arm == "wide_range":
        # the wide history of the harness: max 8, chunk 2, step to 1/8, ramp back to the original ratio
        build = build.replace("1.0, 4.0,", "1.0, 8.0,").replace(", 3, 1).unwrap()", ", 2, 1).unwrap()")
        prog = prog.replace("set_resample_ratio_relative(0.25, false)", "set_resample_ratio_relative(0.125, false)").replace("set_resample_ratio(4.0, true)", "set_resample_ratio(1.0, true)")
    return prog.replace("@BUILD@", build).replace("@ADJ@", adj).replace("@CHUNK@", chunk)


def replay(scratch, ob):
    """-> (counterexample dict or None, text starting with 'reproduced' when the real code shows heap traffic)"""
    prog = program(ob.name)
    if prog is None:
        return None, "no native replay for this obligation"
    rc, out = native.run_program(scratch, "c09", prog)
    if "error: could not compile" in out or "error[E" in out:
        return None, "replay program did not build: " + out[-600:]
    mine = [l.strip() for l in out.splitlines() if l.strip().startswith(("heap traffic during", "valid history:"))]
    tail = " | ".join(mine[-8:])[:900]
    if not any(l.startswith("valid history:") for l in mine):
        return None, "replay program did not run to its end (rc=%s): %s" % (rc, " | ".join(out.strip().splitlines()[-4:])[:500])
    cex = {"history": "the harness's concrete history through the public API (see vlib/replay_c09.py)", "program_output": tail}
    if rc == 1:
        return cex, "reproduced on the real code (counting #[global_allocator], public API): " + tail
    return cex, "not reproduced natively (rc=%s): %s" % (rc, tail)
