"""Which stages decide which property, and the assumptions that go into every evidence file."""

COMMON_ASSUMPTIONS = [
    "configuration domain (DESIGN.md section 3): sizes and rates < 2^24, resample ratios and max_relative_ratio finite with "
    "2^-20 <= original/max and original*max <= 2^20, sinc_len a multiple of 8",
    "Kani's MIR->GOTO translation and CBMC's IEEE-754 bit-precise model; Z3 4.x; Verus/vstd",
    "harness modules are injected into a scratch snapshot of /repo's working tree as cfg(kani) child modules; "
    "/repo itself is compiled unmodified",
]
COMMON_TRUSTED = [
    "kani 0.68.0 / cbmc 6.11.0 / kissat", "rustc MIR semantics",
]

PROPS = {}


def prop(pid, **kw):
    PROPS[pid] = kw
    kw.setdefault("stages", [])
    kw.setdefault("known", [])
    return kw


prop("C12", level="other",
     explanation="accept/reject contracts of the ratio and chunk-size controls",
     )

NOT_APPLICABLE = {
    "C01": "passband amplitude / phase / leakage in dB of sin/cos-generated tables and of rustfft: no contract over f64 that CBMC, Z3 or Verus can discharge expresses a frequency response (DESIGN.md 4 C01)",
    "C02": "stopband rejection in dB: same reason as C01; the structural facts that contracts can pin down decide nothing about decibels (DESIGN.md 4 C02)",
    "C15": "SIMD intrinsics (_mm256_fmadd_*, _mm_hadd_*, cpuid dispatch) are outside Kani's and Verus's supported subset and the claim is a rounding tolerance on a 512-term dot product (DESIGN.md 4 C15)",
    "C18": "quantifies over thread schedules; Kani has no threads and Verus would need its own permission types on code with no concurrency primitives to annotate (DESIGN.md 4 C18)",
}
