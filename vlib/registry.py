"""Which stages decide which property, and the assumptions that go into every evidence file."""

COMMON_ASSUMPTIONS = [
    "configuration domain (DESIGN.md section 3): sizes and rates < 2^24, resample ratios and max_relative_ratio finite with "
    "2^-20 <= original/max and original*max <= 2^20, sinc_len a multiple of 8",
    "Kani's MIR->GOTO translation and CBMC's IEEE-754 bit-precise model; Z3 4.x; Verus/vstd",
    "harness modules are injected into a scratch snapshot of /repo's working tree as cfg(kani) child modules; "
    "/repo itself is compiled unmodified",
]
COMMON_TRUSTED = [
    "kani 0.68.0 / cbmc 6.11.0 / kissat", "rustc MIR semantics",
]

PROPS = {}


def prop(pid, **kw):
    PROPS[pid] = kw
    kw.setdefault("stages", [])
    kw.setdefault("known", [])
    return kw


from . import tierb_c12  # noqa: E402

prop("C12", level="other",
     stages=[tierb_c12.stage],
     technique="Kani/CBMC contract harnesses (bit-precise, loop-free) + expression identity / Z3 QF_FP on extracted conditions",
     explanation="Contracts of set_resample_ratio(_relative) and set_chunk_size on all seven types. Effect clauses (what an accepted / "
                 "rejected call changes, error payloads, Ok => finite positive) are complete bit-precise proofs over the full f64/usize "
                 "domain of arguments AND state. The accept-iff-in-range clause is decided for ALL (original,max,argument) by extracting the "
                 "condition from the source and showing it is the documented expression (identity, else Z3 floating-point equivalence); "
                 "Kani re-proves it on the compiled code for the full f64 argument domain at 6 concrete (original,max) pairs (labelled bounded), "
                 "because CBMC does not terminate on the equivalence of two symbolic 53-bit dividers.",
     level_text="every clause of the property is a discharged obligation; level is 'other' rather than 'proof' only because the "
                "bit-precise re-check of the iff clause on the compiled code is bounded in (original,max)",
     trusted_base=["expression extraction by vlib/rsparse.py (re-run on the working tree each time)", "IEEE-754 determinism: identical float expressions evaluate identically"],
     )

NOT_APPLICABLE = {
    "C01": "passband amplitude / phase / leakage in dB of sin/cos-generated tables and of rustfft: no contract over f64 that CBMC, Z3 or Verus can discharge expresses a frequency response (DESIGN.md 4 C01)",
    "C02": "stopband rejection in dB: same reason as C01; the structural facts that contracts can pin down decide nothing about decibels (DESIGN.md 4 C02)",
    "C15": "SIMD intrinsics (_mm256_fmadd_*, _mm_hadd_*, cpuid dispatch) are outside Kani's and Verus's supported subset and the claim is a rounding tolerance on a 512-term dot product (DESIGN.md 4 C15)",
    "C18": "quantifies over thread schedules; Kani has no threads and Verus would need its own permission types on code with no concurrency primitives to annotate (DESIGN.md 4 C18)",
}

from . import tierb_c13  # noqa: E402

prop("C13", level="other", stages=[tierb_c13.stage],
     technique="Kani/CBMC contract of validate_buffers + syntactic frame/argument obligations on the extracted call prefixes",
     explanation="modular: callee contract (validate_buffers) + caller obligations on each process_into_buffer prefix",
     )

prop("C16", level="other",
     technique="Kani/CBMC contracts of the default trait methods against a nondeterministic recording implementor",
     explanation="process / process_partial_into_buffer / process_partial / VecResampler verified against an abstract core (mock implementor of "
                 "Resampler<f64> with nondeterministic getters and results that records what it is given), hence for every implementation",
     level_text="bit-precise CBMC proofs on the real default methods against an abstract core, hence implementation independent; BOUNDED in shape: "
                "5 concrete (channels, frame-count, partial-length) configurations per method because heap objects of symbolic length make CBMC's "
                "array post-processing explode (measured > 15 min, > 16 GB); masks, core results, data and probe positions are symbolic",
     trusted_base=["the mock's recording code in kani/verif_lib__c16.rs", "T = f64 instantiation of the generic default methods"],
     )

from . import tierc  # noqa: E402

FFT_TRUST = ["L-f32div: (a as f32 / b as f32).ceil()/.floor() as usize is exact for a, b < 2^24: external_body in the Verus file, but no longer trusted by itself - "
             "derived on every run from the float rounding model (relative error 2^-24, representable results exact) by Z3 and cross-checked bit-precisely "
             "by CBMC for operands < 2^8 (quick) / 2^12 (thorough); what stays trusted is that the idiom in synchro.rs is the one the lemma is about "
             "(vlib/tierc.py rewrites exactly that shape and nothing else)",
             "num_integer::gcd divides both arguments and is >= 1 (external_body)",
             "Tier C extraction keeps the usize control statements verbatim and drops sample-storage statements (vlib/tierc.py docstring)"]

prop("C04", level="other", stages=[tierc.stage_for("C04")], trusted_base=FFT_TRUST,
     technique="Verus on extracted integer control slices (FFT adapters); Tier B VC generation + Z3 (asynchronous resamplers)",
     explanation="advertised frame counts are true bounds and exact reports")
prop("C07", level="other", stages=[tierc.stage_for("C07")], trusted_base=FFT_TRUST,
     technique="Verus ghost frame totals on extracted integer slices (FFT adapters); Tier B carried-position bounds + Z3 (asynchronous)",
     explanation="frame accounting without drift")
prop("C03", level="other", stages=[tierc.stage_for("C03")], trusted_base=FFT_TRUST,
     technique="Verus overflow/range obligations on extracted slices (FFT adapters) and on the extracted scalar sinc kernel / table construction (all sizes); Tier B index-range VCs + Z3; Kani/CBMC safety checks on the compiled crate",
     explanation="no UB / OOB / panic on valid histories")
prop("C10", level="other", stages=[tierc.stage_for("C10")], trusted_base=FFT_TRUST,
     technique="Verus reset-vs-constructor postconditions (FFT); expression identity + Z3 (asynchronous); Kani bounded buffer zeroing",
     explanation="reset() returns to the freshly constructed state")
prop("C14", level="other", stages=[tierc.stage_for("C14")], trusted_base=FFT_TRUST,
     technique="Verus (FFT half-block delay) + Tier B first-frame instant (polynomial resamplers)",
     explanation="output_delay() is the true alignment delay (structural form)")

from . import tierb_async  # noqa: E402

prop("C06", level="other",
     technique="Tier B VC generation + Z3 on the extracted stepping code; Kani bit-precise setter contracts; expression identity",
     explanation="ratio changes give a continuous forward-only time warp: strictly increasing instants, spacing 1/ratio, step changes effective from the "
                 "first frame of the next chunk, current ratio == target after every call, every read inside the part of the buffer filled for the call")

for _p in ("C03", "C04", "C06", "C07"):
    PROPS[_p]["stages"].append(tierb_async.stage_for(_p))
    PROPS[_p].setdefault("assumptions", []).extend(tierb_async.ASSUME_TEXT)
PROPS["C10"]["stages"].append(tierb_async.stage_for("C10", what=("reset",)))
PROPS["C10"].setdefault("assumptions", []).extend(tierb_async.ASSUME_TEXT[:3])

for _p in ("C03", "C06"):
    PROPS[_p]["stages"].append(tierb_c12.stage)

from . import tierc_kernel  # noqa: E402
# scalar sinc kernel + table construction under Verus contracts, all sizes (replaces reliance on the bounded Kani contract)
PROPS["C03"]["stages"].append(tierc_kernel.stage)
PROPS["C03"]["stages"].append(tierc_kernel.length_stage)
PROPS["C03"].setdefault("assumptions", []).extend(tierc_kernel.ASSUMPTIONS)

from . import tierb_misc  # noqa: E402
PROPS["C10"]["stages"].append(tierb_misc.fft_reset_stage)

prop("C05", level="other",
     stages=[tierc.stage_for("C05"), tierb_async.stage_for("C05")],
     technique="Tier B buffer-window obligations (history shift / chunk load / carried position) + Z3; Verus on the FFT block bookkeeping; Kani relational "
               "runs of the compiled code (same symbolic input stream, two chunkings / variants, bit-identical common prefix)",
     explanation="Output independent of chunking: the buffer-window invariant (buffer[j] holds stream frame consumed - fill - 2L + j) is preserved by the "
                 "history shift and chunk load of every call (shift source == what the previous call loaded, load appended right after the 2L history, "
                 "also when guarded by a condition), set_chunk_size leaves position, ratios and recorded fill untouched, the carried position is "
                 "relative to the frames just consumed. The step from these contracts to 'two chunkings give the same samples' is a meta-argument "
                 "(DESIGN.md 4 C05), not a machine-checked relational proof for all sizes. The relational statement itself is checked on the compiled code for "
                 "bounded shapes (kani/gen/gen_c05.py): one stream of 12-20 arbitrary samples is fed to chunk 4 vs chunk 2, to the fixed-output vs the fixed-input "
                 "variant (including output chunks so small that calls need no input), to a sinc resampler whose chunk size is changed repeatedly in mid-stream vs a "
                 "constant one, and to FftFixedIn / FftFixedOut (chunk smaller than, equal to, larger than the FFT block) vs FftFixedInOut (FFT adapters: one concrete stream in the "
                 "quick tier, symbolic in the thorough tier - 20 min per harness); ratios are powers of two so "
                 "that positions are exact, the interpolation is Nearest (pure data movement; the interpolating degrees run on one concrete stream in the thorough "
                 "tier), and the two output streams must be bit-identical on a common prefix that reaches past the start-up silence and several chunk boundaries.",
     trusted_base=FFT_TRUST + ["relational Kani runs: 12-20 input frames, ratios 1, 2, 1/2 (fft 2/3), harness-defined copying sinc interpolator / data-preserving FFT plans"],
     assumptions=list(tierb_async.ASSUME_TEXT))

from . import known  # noqa: E402
for _p in ("C03", "C04", "C06", "C14"):
    PROPS[_p]["known"].append(known.replay_for(_p))

from . import tierb_c08  # noqa: E402

def _c08_async(scratch, tier, log):
    obs = tierb_async.run_all(scratch, what=("process",))
    return [o for o in obs if ("FastFixed" in o.name)]
_c08_async.__name__ = "tierb_async_C08"

prop("C08", level="other", stages=[tierb_c08.stage, _c08_async],
     technique="exact polynomial identity (sympy) on the extracted interpolation bodies + Tier B window-choice obligations (Z3)",
     explanation="interp_septic/quintic/cubic/lin are, as polynomials in x and the samples, exactly the Lagrange interpolants through their 8/6/4/2 nodes "
                 "(decided for all x and all sample values by polynomial expansion of the extracted bodies); every arm of FastFixedIn/Out hands the function "
                 "of its degree the W samples starting k before floor(instant) and the fractional part of the instant (Tier B step obligations), and the "
                 "instants are 1/ratio apart (C06 obligations). The sinusoid error bound is the classical consequence and is not machine-checked.",
     assumptions=["float literals of the coefficient tables denote the decimals / quotients written in the source (1-ulp rounding of 1/3, 1/6, 1/120, 1/5040 ignored)",
                  "reproduction 'to rounding': floating-point evaluation error of the polynomial is not bounded here"] + list(tierb_async.ASSUME_TEXT))

from . import tierb_flow  # noqa: E402

prop("C11", level="other", stages=[tierb_flow.c11_stage],
     technique="syntactic channel-frame obligations on the parsed bodies; Kani contracts of validate_buffers and resample_unit; Kani relational runs "
               "of the compiled code (2-channel vs 1-channel resampler, other channel symbolic or masked out)",
     explanation="Channel frame: inside every loop over channels each access to per-channel storage is indexed by the loop's own channel variable and the caller's "
                 "buffers are touched only under that channel's mask bit; no value is carried from one channel's iteration to the next; control flow, control state and "
                 "returned counts outside the channel loops do not mention the mask; validate_buffers inspects active channels only (Kani contract); resample_unit "
                 "rewrites all shared FFT work buffers before each transform. Together with the index obligations of C03 this gives per-channel independence and "
                 "untouched masked outputs; it is a frame argument, not a relational proof on values. The relational statement itself is checked on the "
                 "compiled code for bounded shapes (kani/gen/gen_c11.py): for each of the seven types a 2-channel resampler whose other channel carries arbitrary "
                 "samples in [-1,1] (FFT quick tier: concrete samples) is run next to a 1-channel one with the same history - the channel of interest (at index 0 and at "
                 "index 1) must be bit-identical, the counts equal, and with the other channel masked out and passed empty its sentinel-filled output stays untouched.",
     trusted_base=["vlib/tierb_flow.py classification of per-channel storage and channel loops",
                   "relational Kani runs: chunk 3-4, 2 calls, harness-defined sinc interpolator / data-preserving FFT plans"])
prop("C17", level="other", stages=[tierb_flow.c17_stage, tierb_async.stage_for("C17", what=("process",))],
     technique="syntactic information-flow obligations (taint from sample storage and the sample type T to control sinks); Tier B range VCs + Z3 on "
               "every value converted to the sample type in the stepping code",
     explanation="Control half of the property only: no value read from sample storage and nothing depending on the type parameter T (T::*, size_of::<T>, coercions) "
                 "reaches a branch or loop condition, an index or range, an assignment to control state or a returned count, in any method of the seven types, "
                 "make_interpolator's size computation and the FFT constructors. Hence f32 and f64 instantiations take identical control decisions and return "
                 "identical counts. Of the numerical half only a necessary condition is decided: every value that the stepping code of the four asynchronous "
                 "resamplers converts to the sample type is a bounded offset (|x| <= 4, proved from the loop invariants), never a stream position whose f32 rounding "
                 "error would grow with the chunk size; that the outputs then agree to single precision is not decided.",
     trusted_base=["vlib/tierb_flow.py taint rules"])
prop("C09", level="other", stages=[tierb_flow.c09_stage],
     technique="syntactic deny-list obligation over the real-time methods and everything they call in the crate; Kani/CBMC runs of the compiled "
               "methods with the global allocator's entry points stubbed by asserting functions (bounded histories)",
     explanation="No allocating or deallocating construct (vec!/format!, Vec/String/Box/Arc constructors, to_vec/collect/push/resize/clone of buffers, buffer "
                 "replacement, realfft's allocating process()) occurs in process_into_buffer, the setters, reset, the getters of the seven types, or in the crate "
                 "functions they call. This is a closed-world syntactic frame obligation on the crate's own code; realfft's process_with_scratch is assumed "
                 "allocation-free with adequate scratch (its documented contract); the SIMD interpolators and `log` feature are not covered. "
                 "Corroborated on the compiled code: for each of the seven types one (quick) or one per interpolation arm (thorough) concrete history "
                 "(getters, ratio step and ramp over the whole adjustable range / chunk-size changes / rejected setters, masked and over-long-input calls, "
                 "reset) is run by CBMC with alloc, alloc_zeroed, realloc_nonnull and dealloc_nonnull of liballoc replaced by stubs asserting that no heap "
                 "traffic happens between construction and drop; guard harnesses show on every run that each stub intercepts. These runs are bounded "
                 "(concrete sizes, harness-defined FFT plans / sinc interpolator) and are labelled so.",
     trusted_base=["the deny list in vlib/tierb_flow.py", "realfft::process_with_scratch does not allocate",
                   "Kani's allocator model: Global's allocation paths in liballoc go through alloc / alloc_zeroed / realloc_nonnull / dealloc_nonnull (guarded by should_panic harnesses)"])


def _c16_getter_consistency(scratch, tier, log):
    """the wrappers size their buffers with the getters: the core must validate against exactly those values"""
    return [o for o in tierb_c13.stage(scratch, tier, log) if "validates_advertised" in o.name]
_c16_getter_consistency.__name__ = "tierb_c16_getters"
PROPS["C16"]["stages"].append(_c16_getter_consistency)

def _c14_async(scratch, tier, log):
    return tierb_async.run_all(scratch, what=("delay", "reset"))
_c14_async.__name__ = "tierb_async_C14"
PROPS["C14"]["stages"].append(_c14_async)
PROPS["C14"]["stages"].append(tierb_misc.fft_filter_stage)
PROPS["C14"].setdefault("assumptions", []).extend(tierb_async.ASSUME_TEXT[:2] + [
    "C14 is decided in a structural form: evaluation instants (first instant -L/2 + 1/ratio from the constructor/reset obligations, spacing 1/ratio from the C06 "
    "obligations) against the reported value; that the polynomial kernel is centred on its evaluation instant is the C08 window obligation; for the FFT adapters the filter geometry "
    "(exactly fft_size_in taps laid out from tap 0 of the block) is a contract of FftResampler::new, and that make_sincs returns a kernel symmetric about len/2 is assumed (L-centre)",
    "the sinc resamplers are not claimed (known finding F7)"])
