"""Syntactic analyses over the parsed function bodies (frames, purity, call prefixes)."""
import re

from . import rsparse as rp
from .common import Undecided

ASYNC = [("FastFixedIn", "asynchro_fast.rs"), ("FastFixedOut", "asynchro_fast.rs"),
         ("SincFixedIn", "asynchro_sinc.rs"), ("SincFixedOut", "asynchro_sinc.rs")]
FFT = [("FftFixedIn", "synchro.rs"), ("FftFixedOut", "synchro.rs"), ("FftFixedInOut", "synchro.rs")]
ALL7 = ASYNC + FFT

MUT_METHODS = {"copy_from_slice", "copy_within", "iter_mut", "chunks_mut", "fill", "clear", "push", "resize",
               "truncate", "swap", "as_mut", "get_unchecked_mut", "get_mut", "resample_unit", "extend", "insert",
               "remove", "pop", "append", "drain", "reserve", "shrink_to_fit", "split_at_mut", "last_mut",
               "first_mut", "as_mut_slice", "sort", "reverse", "rotate_left", "rotate_right", "set_len",
               "clone_from_slice", "swap_with_slice", "process_with_scratch", "process"}
PURE_METHODS = {"len", "nbr_sincs", "iter", "enumerate", "as_ref", "ceil", "floor", "round", "is_empty", "min", "max",
                "abs", "get_unchecked", "get", "filter", "map", "zip", "take", "skip", "chunks", "copied", "cloned",
                "unwrap_or", "unwrap_or_default", "unwrap", "and_then", "is_some", "is_none", "to_bits", "sqrt",
                "sin", "cos", "powi", "clone", "into", "rev", "step_by", "sum", "count", "last", "first", "contains",
                "is_finite", "is_nan", "get_sinc_interpolated", "for_each", "any", "all", "position", "fold",
                "is_positive", "is_negative", "to_vec", "into_iter", "collect", "complex_len", "get_scratch_len",
                "saturating_sub", "checked_sub", "wrapping_sub", "div_ceil"}


def place_of(e):
    """Root place of an lvalue-ish expression: 'self.field', a local name, or None."""
    e = rp.strip_paren(e)
    while True:
        k = e[0]
        if k == "index":
            e = rp.strip_paren(e[1])
        elif k == "unary" and e[1] in ("*", "&", "&mut"):
            e = rp.strip_paren(e[2])
        elif k == "mcall":
            e = rp.strip_paren(e[1])
        elif k == "field":
            inner = rp.strip_paren(e[1])
            if inner[0] == "path" and inner[1] == ["self"]:
                return "self." + e[2]
            e = inner
        elif k == "path":
            return "::".join(e[1])
        elif k == "try":
            e = rp.strip_paren(e[1])
        elif k == "cast":
            e = rp.strip_paren(e[1])
        elif k == "range":
            return None
        else:
            return None


def self_method_sigs(src):
    """name -> 'mut' | 'ref' | 'none' for every fn with a self receiver in the file."""
    out = {}
    for m in re.finditer(r"\bfn\s+([A-Za-z_][A-Za-z0-9_]*)\s*(?:<[^>]*>)?\s*\(\s*(&\s*mut\s+self|&\s*self|self|mut\s+self)?", rp.strip_tests(src)):
        recv = (m.group(2) or "").replace(" ", "")
        kind = "mut" if recv.startswith("&mut") else ("ref" if recv in ("&self", "self", "mutself") else "none")
        if m.group(1) in out and out[m.group(1)] != kind:
            out[m.group(1)] = "mut" if "mut" in (out[m.group(1)], kind) else kind
        else:
            out[m.group(1)] = kind
    return out


def collect_writes(node, sigs, locals_ok=True):
    """All places written (syntactically) inside `node`: list of (place, description, line)."""
    out = []
    for n in rp.walk(node):
        k = n[0]
        if k == "assign":
            out.append((place_of(n[2]) or rp.show(n[2]), "assignment `%s`" % rp.show(n)[:100], n[4] if len(n) > 4 else None))
        elif k == "mcall":
            recv = rp.strip_paren(n[1])
            if recv[0] == "path" and recv[1] == ["self"]:
                kind = sigs.get(n[2])
                if kind == "mut":
                    out.append(("self.*", "call of &mut self method `%s`" % n[2], None))
                elif kind is None:
                    out.append(("self.?", "call of unknown self method `%s`" % n[2], None))
            elif n[2] in MUT_METHODS:
                out.append((place_of(recv) or rp.show(recv), "mutating method `.%s()` on %s" % (n[2], rp.show(recv)[:60]), None))
            elif n[2] not in PURE_METHODS:
                out.append((place_of(recv) or rp.show(recv), "method `.%s()` of unknown purity on %s" % (n[2], rp.show(recv)[:60]), None))
        elif k == "unary" and n[1] == "&mut":
            out.append((place_of(n[2]) or rp.show(n[2]), "mutable borrow `&mut %s`" % rp.show(n[2])[:60], None))
        elif k == "macro" and n[1] not in ("trace", "debug", "info", "warn", "error", "debug_assert", "vec", "assert",
                                           "assert_eq", "t", "println", "format", "matches"):
            out.append(("?", "macro %s!" % n[1], None))
    return out


def split_at_call(body, fname):
    """(prefix statements, the statement containing the call, the call node, suffix statements)."""
    stmts = list(body[1]) + ([("expr", body[2], False, 0)] if body[2] is not None else [])
    for i, st in enumerate(stmts):
        for n in rp.walk(st):
            if n[0] == "call" and rp.show(n[1]).split("::")[-1] == fname:
                return stmts[:i], st, n, stmts[i + 1:]
    raise Undecided("anchor lost: no call of %s" % fname)


def let_env(stmts, subst):
    """Substitution environment from simple `let x = e;` statements (in order)."""
    env = {}
    for st in stmts:
        if st[0] == "let" and st[3] is not None and len(st[1][2]) == 1 and not st[1][1].strip().startswith("("):
            env[st[1][2][0]] = subst(st[3], env)
    return env


def subst(e, env):
    """Structural substitution of single-segment paths."""
    k = e[0]
    if k == "path" and len(e[1]) == 1 and e[1][0] in env:
        return env[e[1][0]]
    if k == "paren":
        return subst(e[1], env)
    if k == "binary":
        return ("binary", e[1], subst(e[2], env), subst(e[3], env))
    if k == "unary":
        return ("unary", e[1], subst(e[2], env))
    if k == "field":
        return ("field", subst(e[1], env), e[2])
    if k == "cast":
        return ("cast", subst(e[1], env), e[2])
    if k == "mcall":
        return ("mcall", subst(e[1], env), e[2], [subst(a, env) for a in e[3]])
    if k == "call":
        return ("call", e[1], [subst(a, env) for a in e[2]])
    if k == "index":
        return ("index", subst(e[1], env), subst(e[2], env))
    if k == "tuple":
        return ("tuple", [subst(a, env) for a in e[1]])
    if k == "range":
        return ("range", subst(e[1], env) if e[1] else None, subst(e[2], env) if e[2] else None, e[3])
    return e


def inline_self_getters(e, src, impls, depth=0):
    """Replace self.<m>() by the tail expression of the &self method <m> (if it is a single expression)."""
    e = rp.strip_paren(e)
    if depth > 4:
        return e
    k = e[0]
    if k == "mcall" and rp.show(e[1]) == "self" and not e[3]:
        for impl in impls:
            try:
                sig, body, l0, _ = rp.find_fn(src, e[2], impl)
            except rp.ParseError:
                continue
            env = let_env(body[1], subst)
            if body[2] is not None and all(st[0] == "let" for st in body[1]):
                return inline_self_getters(subst(body[2], env), src, impls, depth + 1)
        return e
    if k == "binary":
        return ("binary", e[1], inline_self_getters(e[2], src, impls, depth), inline_self_getters(e[3], src, impls, depth))
    if k == "unary":
        return ("unary", e[1], inline_self_getters(e[2], src, impls, depth))
    if k == "cast":
        return ("cast", inline_self_getters(e[1], src, impls, depth), e[2])
    if k == "mcall":
        return ("mcall", inline_self_getters(e[1], src, impls, depth), e[2], [inline_self_getters(a, src, impls, depth) for a in e[3]])
    if k == "field":
        return ("field", inline_self_getters(e[1], src, impls, depth), e[2])
    return e


def norm_text(e):
    """Parenthesis-free canonical text of an expression."""
    return rp.show(subst(e, {}))


def struct_fields(src, name):
    """field name -> type text of `struct name<T> { ... }`"""
    m = re.search(r"\bstruct\s+%s\b[^{]*\{" % re.escape(name), src)
    if not m:
        raise Undecided("anchor lost: struct %s" % name)
    end = rp.match_brace(src, m.end() - 1)
    body = src[m.end():end - 1]
    out = {}
    for fm in re.finditer(r"^\s*(?:pub(?:\([a-z]+\))?\s+)?([a-z_][a-z0-9_]*)\s*:\s*([^,\n]+),", body, re.M):
        out[fm.group(1)] = fm.group(2).strip()
    return out
