"""Tier C, second unit: Verus on the scalar sinc kernel and the construction of its tables (all sizes, no bound).

The real bodies of `ScalarInterpolator::get_sinc_interpolated`, `ScalarInterpolator::new` (sinc_interpolator/mod.rs) and the table-
filling tail of `make_sincs` (sinc.rs, from the `let mut X = vec![vec![..; A]; B];` statement to the end) are cut out of the snapshot
of /repo's working tree on every run and spliced into verus/scalar_kernel.rs.tmpl after these mechanical rewrites (nothing else is
changed; what each one drops is stated):
  R1  `assert!(C, "msg", args..)`      -> `assert(C);`   a Verus proof obligation: under the contract's `requires` the run-time assert can
                                         never fire (the message and its argument expressions, evaluated only on failure, are dropped)
  R2  `&X[a..b]`                       -> `slice_subrange(X, a, b)` (vstd's contract for range indexing: a <= b <= X.len(), else panic)
  R3  `unsafe {`                       -> `{`            the block's obligations are exactly what Verus now has to prove
  R4  `*E.get_unchecked(I)`            -> `E[I]`         Verus' index obligation I < E.len() IS get_unchecked's safety precondition
  R5  `for _ in A..B {`                -> `for k__ in A..B invariant .. {`   (Verus rejects `_`); invariants are derived from the text:
        a counter `let mut V = 0;` before the loop that the body advances by `V += N;` gives `V == N * k__`; the table dimensions read
        off `vec![vec![..; A]; B]` give the shape invariant of the loops that fill the table; for two nested `for p in 0..A`/`for n in
        0..B` loops the nonlinear fact `B*p + n < A*B` is stated as a hint (proved by Verus, `by (nonlinear_arith)`)
  R6  `debug!(..)` / `trace!(..)`       -> dropped (logging)
The sample type `T` is an opaque struct with uninterpreted arithmetic. The first half of make_sincs (float code through iterator
adapters) stays outside Verus: its length contract (make_sincs_head, external_body: npoints*factor values) is checked by the syntactic
length-frame obligations of `length_stage` below (windows.rs generators, make_window, the push loop); products of sizes fit usize (assumed).
A failure that is a Rust/Verus *compile* error (unknown name, unsupported construct) is UNDECIDED, never a violation; a failed
verification condition is FAILED, and the bounded Kani contract of the same function (kani/verif_sinc_interpolator__scalar.rs) is what
supplies a replayable input when there is one.
"""
import json
import os
import re
import time

from . import rsparse as rp
from .common import DISCHARGED, FAILED, UNDECIDED, VERIF, Obligation, Undecided
from .tierc import function_at, parse_verus, run_verus

ASSUMPTIONS = [
    "scalar kernel (Verus): the first half of make_sincs (window, sinc evaluation, normalisation; float code through iterator adapters) is "
    "outside Verus: its contract 'returns npoints*factor values' (make_sincs_head, external_body) is not proved deductively but checked by the "
    "syntactic length-frame obligations SINC.windows.*.returns_npoints_values and SINC.make_sincs.head_returns_npoints_times_factor_values "
    "(vec![_; n] never resized; one unconditional push per element of window.iter().enumerate().take(n); closed deny list of length-changing "
    "Vec methods); sinc_len*oversampling_factor fits usize",
    "scalar kernel (Verus): the sample type is an opaque struct with uninterpreted +, *, /, += (obligations concern indices, lengths and "
    "panics only); rewrites R1-R6 of vlib/tierc_kernel.py are the whole difference between the verified text and the source",
]


def _match(text, i, open_c, close_c):
    """index of the bracket closing the one at text[i]"""
    depth = 0
    j = i
    in_str = False
    while j < len(text):
        c = text[j]
        if in_str:
            if c == "\\":
                j += 1
            elif c == '"':
                in_str = False
        elif c == '"':
            in_str = True
        elif c == open_c:
            depth += 1
        elif c == close_c:
            depth -= 1
            if depth == 0:
                return j
        j += 1
    raise Undecided("unbalanced %s in extracted text" % open_c)


def _split_top(s):
    parts, depth, cur, in_str = [], 0, "", False
    k = 0
    while k < len(s):
        c = s[k]
        if in_str:
            cur += c
            if c == "\\":
                k += 1
                cur += s[k]
            elif c == '"':
                in_str = False
        elif c == '"':
            in_str = True
            cur += c
        elif c in "([{":
            depth += 1
            cur += c
        elif c in ")]}":
            depth -= 1
            cur += c
        elif c == "," and depth == 0:
            parts.append(cur)
            cur = ""
        else:
            cur += c
        k += 1
    parts.append(cur)
    return parts


def strip_comments(t):
    return re.sub(r"//[^\n]*", "", t)


def rewrite(text):
    t = strip_comments(text)
    # R6 logging
    for mac in ("debug!", "trace!", "info!"):
        while True:
            m = re.search(r"\b%s\s*\(" % re.escape(mac), t)
            if not m:
                break
            e = _match(t, m.end() - 1, "(", ")")
            k = e + 1
            while k < len(t) and t[k] in " \t":
                k += 1
            if k < len(t) and t[k] == ";":
                k += 1
            t = t[:m.start()] + t[k:]
    # R1 assert!
    out, pos = "", 0
    for m in re.finditer(r"\bassert!\s*\(", t):
        if m.start() < pos:
            continue
        e = _match(t, m.end() - 1, "(", ")")
        cond = _split_top(t[m.end():e])[0].strip()
        out += t[pos:m.start()] + "assert(%s)" % cond
        pos = e + 1
    t = out + t[pos:]
    # R3 unsafe
    t = re.sub(r"\bunsafe\s*\{", "{", t)
    # R4 get_unchecked
    while True:
        m = re.search(r"\*\s*([A-Za-z_][A-Za-z0-9_\.]*)\s*\.\s*get_unchecked\s*\(", t)
        if not m:
            break
        e = _match(t, m.end() - 1, "(", ")")
        t = t[:m.start()] + "%s[%s]" % (m.group(1), t[m.end():e].strip()) + t[e + 1:]
    if "get_unchecked" in t:
        raise Undecided("get_unchecked in a form the rewrite R4 does not cover")
    # R2 range index
    while True:
        m = re.search(r"&\s*([A-Za-z_][A-Za-z0-9_\.]*)\s*\[", t)
        if not m:
            break
        e = _match(t, m.end() - 1, "[", "]")
        inner = t[m.end():e]
        # top-level `..`
        depth, cut = 0, None
        for k in range(len(inner) - 1):
            if inner[k] in "([":
                depth += 1
            elif inner[k] in ")]":
                depth -= 1
            elif inner[k:k + 2] == ".." and depth == 0:
                cut = k
                break
        if cut is None:
            # plain `&X[i]`: leave to Verus (mark so the search moves on)
            t = t[:m.start()] + "&\x00" + t[m.start() + 1:].lstrip()
            continue
        a, b = inner[:cut].strip() or "0", inner[cut + 2:].strip()
        if not b:
            b = "%s.len()" % m.group(1)
        t = t[:m.start()] + "slice_subrange(%s, %s, %s)" % (m.group(1), a, b) + t[e + 1:]
    t = t.replace("&\x00", "&")
    return t


def add_loop_invariants(t, shape=None):
    """R5. `shape` = (var, rows, cols) of a table being filled, or None."""
    counters = {m.group(1) for m in re.finditer(r"\blet\s+mut\s+([A-Za-z_]\w*)\s*(?::\s*usize\s*)?=\s*0\s*;", t)}
    t = _while_loops(t, counters, shape)
    headers = list(re.finditer(r"\bfor\s+([A-Za-z_]\w*)\s+in\s+([^\{]+?)\s*\{", t))
    if not headers and "\n invariant " not in t:
        raise Undecided("no `for` / `while` loop found in the extracted body (loop shape outside rewrite R5)")
    out, pos, nfresh = "", 0, 0
    nest = []  # (var, upper) of enclosing 0..N loops, by text position
    for m in headers:
        var, rng = m.group(1), m.group(2).strip()
        body_end = _match(t, m.end() - 1, "{", "}")
        body = t[m.end():body_end]
        if var == "_":
            var = "k__%d" % nfresh
            nfresh += 1
        invs = []
        for c in sorted(counters):
            incs = re.findall(r"\b%s\s*\+=\s*(\d+)\s*;" % re.escape(c), body)
            if len(incs) == 1 and not re.search(r"\b%s\s*(?:-=|\*=|=[^=])" % re.escape(c), re.sub(r"\b%s\s*\+=" % re.escape(c), "", body)):
                invs.append("%s == %s * %s" % (c, incs[0], var))
        if shape is not None:
            invs.append("table_shape(%s@, (%s) as int, (%s) as int)" % shape)
        nest = [(v, u, e) for (v, u, e) in nest if e > m.start()]
        hint = ""
        mu = re.match(r"0\s*\.\.\s*([A-Za-z_]\w*)$", rng)
        if mu and nest:
            pv, pu, _ = nest[-1]
            # both flattenings of the pair (outer, inner): B*outer + inner < A*B and A*inner + outer < A*B
            hint = "\n assert(%s * %s + %s < %s * %s) by (nonlinear_arith) requires %s < %s, %s < %s;\n" % (
                mu.group(1), pv, var, pu, mu.group(1), pv, pu, var, mu.group(1))
            hint += " assert(%s * %s + %s < %s * %s) by (nonlinear_arith) requires %s < %s, %s < %s;\n" % (
                pu, var, pv, mu.group(1), pu, pv, pu, var, mu.group(1))
        if mu:
            nest.append((var, mu.group(1), body_end))
        out += t[pos:m.start()] + "for %s in %s\n invariant %s,\n {%s" % (var, rng, ", ".join(invs) if invs else "true", hint)
        pos = m.end()
    return out + t[pos:]


def _single_increments(body, counters):
    """{counter: stride} for counters the body advances exactly once by a literal and does not otherwise assign"""
    res = {}
    for c in sorted(counters):
        incs = re.findall(r"\b%s\s*\+=\s*(\d+)\s*;" % re.escape(c), body)
        rest = re.sub(r"\b%s\s*\+=" % re.escape(c), "", body)
        if len(incs) == 1 and not re.search(r"\b%s\s*(?:-=|\*=|=[^=])" % re.escape(c), rest):
            res[c] = int(incs[0])
    return res


def _while_loops(t, counters, shape):
    """R5 for `while A < B {`: derived invariants (stride facts of the counters the body advances once: `c % N == 0`, and
    `c == N * d` for a companion counter d advanced by 1), `decreases B - A`."""
    out, pos = "", 0
    for m in re.finditer(r"\bwhile\s+([^\{]+?)\s*\{", t):
        if m.start() < pos:
            continue
        cond = m.group(1).strip()
        mc = re.match(r"([A-Za-z_]\w*)\s*<\s*(.+)$", cond)
        if not mc:
            raise Undecided("`while %s`: condition is not `counter < bound` (outside rewrite R5)" % cond)
        body_end = _match(t, m.end() - 1, "{", "}")
        body = t[m.end():body_end]
        inc = _single_increments(body, counters)
        if mc.group(1) not in inc:
            raise Undecided("`while %s`: the counter is not advanced exactly once by a literal (outside rewrite R5)" % cond)
        invs = []
        for c, n in sorted(inc.items()):
            if n > 1:
                invs.append("%s %% %d == 0" % (c, n))
        ones = [c for c, n in inc.items() if n == 1]
        for c, n in sorted(inc.items()):
            for d in ones:
                if n > 1:
                    invs.append("%s == %d * %s" % (c, n, d))
        if shape is not None:
            invs.append("table_shape(%s@, (%s) as int, (%s) as int)" % shape)
        out += t[pos:m.start()] + "while %s\n invariant %s,\n decreases (%s) - %s,\n {" % (
            cond, ", ".join(invs) if invs else "true", mc.group(2), mc.group(1))
        pos = m.end()
    return out + t[pos:]


def _norm(s):
    return re.sub(r"\s+", "", s)


def build(scratch):
    src_i = scratch.read("sinc_interpolator/mod.rs")
    src_s = scratch.read("sinc.rs")
    tmpl = open(os.path.join(VERIF, "verus", "scalar_kernel.rs.tmpl")).read()
    parts = {}
    try:
        sig, _b, _l, body = rp.find_fn(src_i, "get_sinc_interpolated", ["SincInterpolator<T> for ScalarInterpolator"])
        if _norm(sig) != _norm("fn get_sinc_interpolated(&self, wave: &[T], index: usize, subindex: usize) -> T"):
            raise Undecided("anchor lost: signature of ScalarInterpolator::get_sinc_interpolated changed: %s" % sig)
        parts["get_sinc_interpolated"] = add_loop_invariants(rewrite(body))
        sig, _b, _l, body = rp.find_fn(src_i, "new", ["impl<T> ScalarInterpolator<T>"])
        if _norm(sig) != _norm("fn new( sinc_len: usize, oversampling_factor: usize, f_cutoff: f32, window: WindowFunction, ) -> Self"):
            raise Undecided("anchor lost: signature of ScalarInterpolator::new changed: %s" % sig)
        parts["new"] = rewrite(body)
        sig, _b, _l, body = rp.find_fn(src_s, "make_sincs")
        if _norm(re.sub(r"where.*", "", sig)) != _norm("fn make_sincs<T>( npoints: usize, factor: usize, f_cutoff: f32, windowfunc: WindowFunction, ) -> Vec<Vec<T>>"):
            raise Undecided("anchor lost: signature of make_sincs changed: %s" % sig)
        body = strip_comments(body)
        m = re.search(r"\blet\s+mut\s+([A-Za-z_]\w*)\s*=\s*vec!\s*\[\s*vec!\s*\[", body)
        if not m:
            raise Undecided("anchor lost: `let mut X = vec![vec![..; A]; B];` not found in make_sincs")
        o = body.index("[", m.end() - 12)
        o = body.index("vec!", m.start()) + 4
        o = body.index("[", o)
        e = _match(body, o, "[", "]")
        outer = body[o + 1:e]
        k = outer.rindex(";")
        rows = outer[k + 1:].strip()
        inner = outer[:k].strip()
        mi = re.match(r"vec!\s*\[(.*)\]$", inner, re.S)
        if not mi:
            raise Undecided("anchor lost: inner vec! of the table in make_sincs")
        cols = mi.group(1)[mi.group(1).rindex(";") + 1:].strip()
        tail = body[m.start():body.rindex("}")]
        parts["make_sincs_tail"] = add_loop_invariants(rewrite(tail), shape=(m.group(1), rows, cols))
    except rp.ParseError as ex:
        raise Undecided(str(ex))
    text = tmpl
    for name, code in parts.items():
        text = re.sub(r"(//@BEGIN %s\n)(//@END)" % re.escape(name), lambda mm: mm.group(1) + code + "\n" + mm.group(2), text)
    return text


def stage(scratch, tier, log):
    tmpl = open(os.path.join(VERIF, "verus", "scalar_kernel.rs.tmpl")).read()
    decl = []
    for m in re.finditer(r"^\s*//@ob (.*)$", tmpl, re.M):
        meta = dict(tok.split("=", 1) for tok in m.group(1).split() if "=" in tok)
        decl.append((meta["name"], meta["fn"]))
    try:
        text = build(scratch)
    except Undecided as e:
        obs = [Obligation(n, "extraction", UNDECIDED, detail=str(e), functions=[f]) for (n, f) in decl]
        _refute_natively(scratch, obs, log)
        return obs
    t0 = time.time()
    rc, out, secs, path = run_verus(scratch, text, "kernel")
    js, errs = parse_verus(out)
    if js is None:
        # source excerpts in the diagnostics may contain braces: the JSON report is the last top-level object
        k = out.rfind("\n{\n")
        if k >= 0:
            try:
                js = json.loads(out[k:])
            except Exception:
                js = None
    log.append("tierc_kernel: verus rc=%s %.1fs" % (rc, secs))
    compile_err = re.search(r"^error\[E\d+\]|^error: (?:The verifier does not yet support|unsupported|expected|cannot find|mismatched)", out, re.M)
    res = (js or {}).get("verification-results", {}) if js else {}
    obs = []
    bad_fns = {}
    for er in errs:
        fn, ob = function_at(text, er["line"])
        meta = dict(tok.split("=", 1) for tok in (ob or "").split() if "=" in tok)
        bad_fns.setdefault(meta.get("name"), []).append("%s (generated line %d: %s)" % (
            er["msg"], er["line"], text.splitlines()[er["line"] - 1].strip()[:120]))
    nver = res.get("verified", 0)
    for (n, f) in decl:
        if compile_err or js is None or (rc != 0 and not errs):
            obs.append(Obligation(n, "verus-0.2026.09.13/z3", UNDECIDED, secs / len(decl), functions=[f],
                                  detail="Verus did not get as far as verification (construct outside the rewrites / changed names): "
                                         + (compile_err.group(0) if compile_err else out[-300:]), output=out[-3000:]))
        elif n in bad_fns or (None in bad_fns):
            obs.append(Obligation(n, "verus-0.2026.09.13/z3", FAILED, secs / len(decl), functions=[f], kind="complete",
                                  detail="; ".join(bad_fns.get(n, bad_fns.get(None, [])))[:900], output=out[-4000:]))
        else:
            obs.append(Obligation(n, "verus-0.2026.09.13/z3", DISCHARGED if nver > 0 else UNDECIDED, secs / len(decl), functions=[f], kind="complete",
                                  checks=max(1, nver // len(decl)),
                                  detail="all sizes; real body after rewrites R1-R6 (vlib/tierc_kernel.py); invariants derived from the text"))
    if any(o.status in (UNDECIDED, FAILED) for o in obs):
        _refute_natively(scratch, obs, log)
    return obs


# ----------------------------------------------------------------------------------------------------------------------------------
# Length-frame obligations for the part of the table construction that Verus cannot read (float code through iterator adapters):
# they replace the bare assumption "make_sincs_head returns npoints*factor values" by checked syntactic frame conditions.

LEN_CHANGING = (r"push|pop|truncate|resize|resize_with|clear|extend|extend_from_slice|insert|remove|swap_remove|drain|retain|retain_mut|"
                r"append|split_off|dedup|dedup_by|dedup_by_key|set_len|splice")


def _len_mutations(body, var, allow_push=0):
    """-> list of length-changing uses of `var` in `body` (text), beyond `allow_push` pushes"""
    found = []
    for m in re.finditer(r"\b%s\s*\.\s*(%s)\s*\(" % (re.escape(var), LEN_CHANGING), body):
        found.append(m.group(0))
    pushes = [f for f in found if re.search(r"\.\s*push\s*\($", f)]
    others = [f for f in found if f not in pushes]
    if len(pushes) > allow_push:
        others += pushes[allow_push:]
    elif len(pushes) < allow_push:
        others.append("expected %d push, found %d" % (allow_push, len(pushes)))
    for m in re.finditer(r"(?<![\w\.])%s\s*=[^=]" % re.escape(var), body):
        pre = body[max(0, m.start() - 12):m.start()]
        if not re.search(r"let\s+(mut\s+)?$", pre):
            found.append("reassignment")
            others.append("reassignment of %s" % var)
    if re.search(r"&\s*mut\s+%s\b" % re.escape(var), body):
        others.append("&mut %s escapes" % var)
    return others


def _ret_expr(body):
    t = body.rstrip()
    if t.endswith("}"):
        t = t[:-1].rstrip()
    m = re.search(r"([A-Za-z_]\w*)\s*$", t)
    return m.group(1) if m else None


def length_stage(scratch, tier, log):
    t0 = time.time()
    obs = []

    def ob(name, status, fn, detail):
        obs.append(Obligation(name, "syntactic", status, time.time() - t0, "complete", [fn], detail=detail, checks=1))

    try:
        wsrc = scratch.read("windows.rs")
        ssrc = scratch.read("sinc.rs")
        # the three window generators: vec![_; npoints], never resized, returned
        for fn in ("blackman_harris", "blackman", "hann"):
            name = "SINC.windows.%s.returns_npoints_values" % fn
            sig, _b, _l, body = rp.find_fn(wsrc, fn)
            body = strip_comments(body)
            pm = re.search(r"\(\s*([A-Za-z_]\w*)\s*:\s*usize\s*\)", sig)
            m = re.search(r"\blet\s+mut\s+([A-Za-z_]\w*)\s*=\s*vec!\s*\[[^;\]]+;\s*([^\]]+?)\s*\]\s*;", body)
            if not pm or not m:
                ob(name, UNDECIDED, fn, "anchor lost: `fn %s(n: usize)` / `let mut w = vec![_; n];` not found" % fn)
                continue
            bad = _len_mutations(body, m.group(1))
            if m.group(2) != pm.group(1):
                ob(name, FAILED, fn, "the window is created with %s elements, not %s" % (m.group(2), pm.group(1)))
            elif bad:
                ob(name, FAILED, fn, "length of the window changes after creation: %s" % "; ".join(bad))
            elif _ret_expr(body) != m.group(1):
                ob(name, UNDECIDED, fn, "returned expression is not the created vector")
            else:
                ob(name, DISCHARGED, fn, "vec![_; %s], no length-changing call, returned" % pm.group(1))
        # make_window: every arm calls a generator with its own npoints; only element-wise updates afterwards
        name = "SINC.windows.make_window.returns_npoints_values"
        sig, _b, _l, body = rp.find_fn(wsrc, "make_window")
        body = strip_comments(body)
        pm = re.search(r"\(\s*([A-Za-z_]\w*)\s*:\s*usize\s*,", sig)
        m = re.search(r"\blet\s+(?:mut\s+)?([A-Za-z_]\w*)\s*=\s*match\b", body)
        calls = re.findall(r"\b(blackman_harris|blackman|hann)\s*::\s*<\s*T\s*>\s*\(\s*([^\)]*?)\s*\)", body)
        if not pm or not m or len(calls) < 3:
            ob(name, UNDECIDED, "make_window", "anchor lost: `let mut window = match ..` with three generator calls not found")
        else:
            wrong = [c for c in calls if c[1] != pm.group(1)]
            bad = _len_mutations(body, m.group(1))
            end = _match(body, body.index("{", m.end()), "{", "}")
            arms = body[m.end():end]
            other_arms = re.findall(r"=>(?!\s*\{?\s*(?:blackman_harris|blackman|hann)\b)\s*([^,\n]+)", arms)
            if wrong:
                ob(name, FAILED, "make_window", "a window generator is called with %s instead of %s" % (wrong[0][1], pm.group(1)))
            elif bad:
                ob(name, FAILED, "make_window", "length of the window changes: %s" % "; ".join(bad))
            elif other_arms or _ret_expr(body) != m.group(1):
                ob(name, UNDECIDED, "make_window", "an arm that is not a generator call, or the vector is not what is returned")
            else:
                ob(name, DISCHARGED, "make_window", "every arm is generator(%s); only element-wise updates; returned" % pm.group(1))
        # make_sincs, first half: y gets exactly one push per element of window.iter().enumerate().take(npoints*factor)
        name = "SINC.make_sincs.head_returns_npoints_times_factor_values"
        sig, _b, _l, body = rp.find_fn(ssrc, "make_sincs")
        body = strip_comments(body)
        cut = re.search(r"\blet\s+mut\s+[A-Za-z_]\w*\s*=\s*vec!\s*\[\s*vec!\s*\[", body)
        head = body[:cut.start()] if cut else None
        tail = body[cut.start():] if cut else ""
        mt = re.search(r"\blet\s+([A-Za-z_]\w*)\s*=\s*npoints\s*\*\s*factor\s*;", head or "")
        my = re.search(r"\blet\s+mut\s+([A-Za-z_]\w*)\s*=\s*Vec\s*::\s*(?:with_capacity\s*\([^\)]*\)|new\s*\(\s*\))\s*;", head or "")
        mw = re.search(r"\blet\s+([A-Za-z_]\w*)\s*=\s*make_window\s*::\s*<\s*T\s*>\s*\(\s*([A-Za-z_]\w*)\s*,", head or "")
        if not (cut and mt and my and mw):
            ob(name, UNDECIDED, "make_sincs", "anchor lost: totpoints / y / window definitions not found in the first half of make_sincs")
        else:
            tot, y, w = mt.group(1), my.group(1), mw.group(1)
            ml = re.search(r"\bfor\s+\([^\)]*\)\s+in\s+%s\s*\.\s*iter\s*\(\s*\)\s*\.\s*enumerate\s*\(\s*\)\s*\.\s*take\s*\(\s*%s\s*\)\s*\{" % (
                re.escape(w), re.escape(tot)), head)
            if mw.group(2) != tot:
                ob(name, FAILED, "make_sincs", "the window is made with %s points, the table needs %s" % (mw.group(2), tot))
            elif not ml:
                ob(name, UNDECIDED, "make_sincs", "loop `for (x, w) in %s.iter().enumerate().take(%s)` not found" % (w, tot))
            else:
                le = _match(head, ml.end() - 1, "{", "}")
                lbody = head[ml.end():le]
                depth0 = ""
                d = 0
                for ch in lbody:
                    if ch == "{":
                        d += 1
                    elif ch == "}":
                        d -= 1
                    elif d == 0:
                        depth0 += ch
                outside = head[:ml.start()] + head[le + 1:] + tail
                bad_out = _len_mutations(outside, y)
                bad_in = _len_mutations(lbody, y, allow_push=1)
                if bad_out or bad_in:
                    ob(name, FAILED, "make_sincs", "the number of values pushed to %s is not one per point: %s" % (y, "; ".join(bad_out + bad_in)))
                elif not re.search(r"\b%s\s*\.\s*push\s*\(" % re.escape(y), depth0) or re.search(r"\b(continue|break|return)\b", lbody):
                    ob(name, UNDECIDED, "make_sincs", "the push is conditional or the loop body leaves early")
                elif y != "y":
                    ob(name, UNDECIDED, "make_sincs", "the value vector is no longer called `y` (the Verus template binds that name)")
                else:
                    ob(name, DISCHARGED, "make_sincs",
                       "%s = npoints*factor; window has %s values (make_window obligation); one unconditional push per element of "
                       "window.iter().enumerate().take(%s); no other length-changing use of %s" % (tot, tot, tot, y))
    except rp.ParseError as ex:
        ob("SINC.make_sincs.head_length.extraction", UNDECIDED, "make_sincs", str(ex))
    if any(o.status in (UNDECIDED, FAILED) for o in obs):
        _refute_natively(scratch, obs, log)
    return obs


REFUTER_MAIN = r"""
// Concrete refuter for the table-construction contracts (run only when a syntactic length obligation is undecided): builds the real
// ScalarInterpolator through the public API for a grid of small configurations and exercises the kernel at the first and the last
// admissible index. Debug build: std's unsafe-precondition checks and overflow checks are on.
use rubato::sinc_interpolator::{ScalarInterpolator, SincInterpolator};
use rubato::WindowFunction;
fn main() {
    let wfs = [WindowFunction::Blackman, WindowFunction::Blackman2, WindowFunction::BlackmanHarris,
               WindowFunction::BlackmanHarris2, WindowFunction::Hann, WindowFunction::Hann2];
    std::panic::set_hook(Box::new(|_| {}));
    let mut n_cfg = 0usize;
    for (wi, wf) in wfs.iter().enumerate() {
        for len in (8..=136usize).step_by(8) {
            for factor in [1usize, 2, 3, 5, 8, 16, 33, 129] {
                n_cfg += 1;
                let wf = *wf;
                // printed before the attempt: an abort (std's unsafe-precondition check) cannot be caught, the last TRY line names it
                println!("TRY sinc_len={} oversampling_factor={} window_index={}", len, factor, wi);
                let r = std::panic::catch_unwind(move || {
                    let it = ScalarInterpolator::<f64>::new(len, factor, 0.9, wf);
                    if it.len() != len || it.nbr_sincs() != factor { return Err("len()/nbr_sincs() differ from the constructor arguments".to_string()); }
                    let wave = vec![1.0f64; len + 21];
                    for &(idx, sub) in &[(0usize, 0usize), (20, factor - 1), (20, 0), (0, factor - 1), (7, factor / 2)] {
                        let v = it.get_sinc_interpolated(&wave, idx, sub);
                        if !v.is_finite() { return Err(format!("non-finite result at index {} subindex {}", idx, sub)); }
                    }
                    Ok(())
                });
                let bad = match r { Err(_) => Some("panic".to_string()), Ok(Err(e)) => Some(e), Ok(Ok(())) => None };
                if let Some(e) = bad {
                    println!("REFUTED sinc_len={} oversampling_factor={} window_index={} : {}", len, factor, wi, e);
                    std::process::exit(1);
                }
            }
        }
    }
    println!("NOT-REFUTED configurations={}", n_cfg);
}
"""


def _refute_natively(scratch, obs, log):
    """An undecided length obligation (anchor lost) is decided only by a natively reproduced failure of the real constructor / kernel."""
    from . import native
    t0 = time.time()
    rc, out = native.run_program(scratch, "kernel_len", REFUTER_MAIN, timeout=900)
    secs = time.time() - t0
    m = re.search(r"^REFUTED (.*)$", out, re.M)
    tries = re.findall(r"^TRY (.*)$", out, re.M)
    built = bool(tries)
    if not m and built and rc not in (0, 1) and "NOT-REFUTED" not in out:
        # the process died inside a configuration (abort from an unsafe-precondition check, segfault)
        m = re.match(r"(.*)", "%s : process terminated abnormally (exit status %s) %s" % (
            tries[-1], rc, " ".join(l for l in out.splitlines() if "unsafe precondition" in l or "panicked" in l)[:300]))
    log.append("tierc_kernel refuter: rc=%s %.1fs %s" % (rc, secs, (m.group(0) if m else out[-200:])))
    if m and rc != 0:
        for o in obs:
            if o.status == FAILED and o.counterexample is None:
                # a failed verification condition gets the refuter's failing configuration as its replayed input
                o.counterexample = {"configuration": m.group(1)}
                o.replayed = True
                o.replay_text = "reproduced natively (debug build of the snapshot, public API):\n" + "\n".join(
                    l for l in out.splitlines() if not l.startswith("TRY "))[-1500:] + "\n--- program ---\n" + REFUTER_MAIN
                o.detail += " -- failing input from the concrete refuter: " + m.group(1)
        for o in obs:
            if o.status == UNDECIDED:
                o.status = FAILED
                o.kind = "bounded"
                o.bound = "native refuter: 6 windows x sinc_len 8..136 x 8 oversampling factors, 5 kernel calls each"
                o.seconds += secs
                o.detail += " -- decided by the concrete refuter on the real code: ScalarInterpolator::<f64>::new / get_sinc_interpolated " \
                            "fails for " + m.group(1)
                o.counterexample = {"configuration": m.group(1)}
                o.replayed = True
                o.replay_text = "reproduced natively (debug build of the snapshot, public API):\n" + "\n".join(
                    l for l in out.splitlines() if not l.startswith("TRY "))[-1500:] + "\n--- program ---\n" + REFUTER_MAIN
    else:
        for o in obs:
            if o.status == UNDECIDED:
                o.detail += " -- concrete refuter found no failing configuration (%s)" % (out.strip().splitlines()[-1][:120] if out.strip() else "no output")
        for o in obs:
            if o.status == FAILED and o.counterexample is None:
                o.detail += " -- concrete refuter (816 small configurations) did not reproduce it"
