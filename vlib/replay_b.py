"""Native replay of Tier B counterexamples (function-level VCs only).

A Z3 model of a failed VC is a *pre-state satisfying the representation invariant* plus the operation's arguments.  For VCs
whose pre-state is a function-entry state (setters, set_chunk_size, the setup / post block of process_into_buffer), the state
is rebuilt from its raw field values in a copy of the snapshot that gets one extra, unconditional `pub mod verif_raw` per file
(never in /repo), the operation is applied through the public API, and a few processing calls follow, each checked against the
property-level oracles (no panic / abort in a debug build with overflow and unsafe-precondition checks, advertised sizes are
bounds, calls with buffers of the advertised sizes return Ok and report the advertised counts).  A failure there makes the
VIOLATION a replayed one; the replay file says that the *reachability* of the pre-state is not shown.  Loop-head states
(step / base VCs) are not replayable this way.
"""
import os
import shutil
import subprocess

from . import native, syn
from .common import run

FILES = {"FastFixedIn": "asynchro_fast.rs", "FastFixedOut": "asynchro_fast.rs", "SincFixedIn": "asynchro_sinc.rs", "SincFixedOut": "asynchro_sinc.rs"}


def raw_module(src, types):
    """Rust text of `pub mod verif_raw` with one constructor-from-raw-fields per type (generated from the struct definition)."""
    out = ["\n#[allow(clippy::too_many_arguments, dead_code)]\npub mod verif_raw {\n    use super::*;\n"]
    for T in types:
        fields = syn.struct_fields(src, T)
        params, inits = [], []
        for f, ty in fields.items():
            t = ty.replace(" ", "")
            if t in ("usize", "f64", "f32", "isize"):
                params.append("%s: %s" % (f, t))
                inits.append("            %s," % f)
            elif f == "buffer":
                params.append("buffer_len: usize")
                inits.append("            buffer: (0..nbr_channels).map(|c| (0..buffer_len).map(|j| 0.001 * (j as f64) + c as f64).collect()).collect(),")
            elif f == "channel_mask":
                inits.append("            channel_mask: vec![true; nbr_channels],")
            elif f == "interpolation":
                params.append("arm: usize")
                if T.startswith("Fast"):
                    inits.append("            interpolation: match arm { 0 => PolynomialDegree::Septic, 1 => PolynomialDegree::Quintic, 2 => PolynomialDegree::Cubic, 3 => PolynomialDegree::Linear, _ => PolynomialDegree::Nearest },")
                else:
                    inits.append("            interpolation: match arm { 0 => SincInterpolationType::Cubic, 1 => SincInterpolationType::Quadratic, 2 => SincInterpolationType::Linear, _ => SincInterpolationType::Nearest },")
            elif f == "interpolator":
                params.append("sinc_len: usize, nbr_sincs: usize")
                inits.append("            interpolator: Box::new(ScalarInterpolator::<f64>::new(sinc_len, nbr_sincs, 0.9, WindowFunction::Hann)),")
            else:
                return None
        out.append("    pub fn make_%s(%s) -> %s<f64> {\n        %s::<f64> {\n%s\n        }\n    }\n" % (
            T, ", ".join(params), T, T, "\n".join(inits)))
    out.append("}\n")
    return "".join(out), None


def build_snapshot(scratch):
    root = os.path.join(scratch.root, "replay_snap")
    if os.path.exists(root):
        return root
    subprocess.check_call(["rsync", "-a", scratch.snap + "/", root + "/"])
    for f, types in (("asynchro_fast.rs", ["FastFixedIn", "FastFixedOut"]), ("asynchro_sinc.rs", ["SincFixedIn", "SincFixedOut"])):
        p = os.path.join(root, "src", f)
        src = open(p).read()
        mod = raw_module(src, types)
        if mod is None or mod[0] is None:
            return None
        with open(p, "a") as fh:
            fh.write(mod[0])
    with open(os.path.join(root, "src", "lib.rs"), "a") as fh:
        fh.write("\npub use crate::asynchro_fast::verif_raw as verif_raw_fast;\npub use crate::asynchro_sinc::verif_raw as verif_raw_sinc;\n")
    return root


def lit(v, ty):
    if ty in ("f64", "f32"):
        return native.f64_lit(float(v)) + (" as f32" if ty == "f32" else "")
    return "%dusize" % max(0, int(v)) if ty == "usize" else "%disize" % int(v)


def program(T, src, model, op):
    fields = syn.struct_fields(src, T)
    g = lambda k, d: model.get(k, d)
    L = int(g("sinc_len", 16)) if T.startswith("Sinc") else 8
    args = []
    for f, ty in fields.items():
        t = ty.replace(" ", "")
        if t in ("usize", "f64", "f32", "isize"):
            dflt = {"nbr_channels": 1, "chunk_size": 8, "max_chunk_size": g("self.chunk_size", 8), "resample_ratio": 1.0, "target_ratio": g("self.resample_ratio", 1.0),
                    "resample_ratio_original": 1.0, "max_relative_ratio": 1.0, "last_index": -L / 2.0, "needed_input_size": 12,
                    "current_buffer_fill": g("self.chunk_size", 8)}.get(f, 0)
            v = g("self." + f, dflt)
            if f == "nbr_channels":
                v = 1
            args.append(lit(v, t))
        elif f == "buffer":
            args.append("%dusize" % int(g("buffer_len", 4096)))
        elif f == "interpolation":
            args.append("arm")
        elif f == "interpolator":
            args.append("%dusize, %dusize" % (L, max(1, min(int(g("nbr_sincs", 16)), 64))))
    narms = 5 if T.startswith("Fast") else 4
    mod = "verif_raw_fast" if T.startswith("Fast") else "verif_raw_sinc"
    opcode = ""
    if op == "update_ratio":
        o_, m_ = float(g("self.resample_ratio_original", 1.0)), float(g("self.max_relative_ratio", 1.0))
        opcode = ("        let (o_, m_) = (%s, %s); let nr = (%s).max(o_ / m_).min(o_ * m_);   // the model's ratio, clamped into the accepted range\n"
                  "        let sr = r.set_resample_ratio(nr, %s); println!(\"set_resample_ratio({}) -> {:?}\", nr, sr.is_ok());\n") % (
            native.f64_lit(o_), native.f64_lit(m_), native.f64_lit(float(g("new_ratio", 1.0))), "true" if str(g("ramp", "False")) == "True" else "false")
    elif op == "set_chunk_size":
        opcode = "        let sr = r.set_chunk_size(%d); println!(\"set_chunk_size -> {:?}\", sr.is_ok());\n" % int(g("chunksize", 1))
    return """use rubato::Resampler;
fn main() {
    let mut bad = 0;
    for arm in 0..%d {
        let res = std::panic::catch_unwind(|| {
        let mut r = rubato::%s::make_%s(%s);
%s        for round in 0..6 {
            let (ni, mi, no, mo) = (r.input_frames_next(), r.input_frames_max(), r.output_frames_next(), r.output_frames_max());
            if ni > mi { println!("arm {} round {}: input_frames_next() {} > input_frames_max() {}", arm, round, ni, mi); return 1; }
            if no > mo { println!("arm {} round {}: output_frames_next() {} > output_frames_max() {}", arm, round, no, mo); return 1; }
            let w = vec![(0..ni).map(|j| (0.01 * j as f64).sin()).collect::<Vec<f64>>(); 1];
            let mut o = vec![vec![0.0f64; no]; 1];
            match r.process_into_buffer(&w, &mut o, None) {
                Ok((i, oo)) => { if i != ni || oo > no { println!("arm {} round {}: counts ({}, {}) vs advertised ({}, {})", arm, round, i, oo, ni, no); return 1; } }
                Err(e) => { println!("arm {} round {}: valid call returned Err: {}", arm, round, e); return 1; }
            }
        }
        0
        });
        match res { Ok(0) => {}, Ok(_) => bad += 1, Err(_) => { println!("arm {}: PANIC", arm); bad += 1; } }
    }
    if bad > 0 { std::process::exit(1); }
}
""" % (narms, mod, T, ", ".join(args), opcode)


def replayable(name):
    for key, op in ((".update_ratio ::", "update_ratio"), (".set_chunk_size ::", "set_chunk_size"), (".process.setup ::", "process"),
                    (".process.post_block", "process"), (".input_frames_max ::", "process"), (".new ::", None), (".reset ::", None)):
        if key in name:
            return op
    return None


def replay(scratch, ob):
    """-> (reproduced: bool, text)"""
    T = ob.name.split(".")[0]
    op = replayable(ob.name)
    if T not in FILES or op is None or not ob.counterexample:
        return False, "not replayable (loop-head state or no model)"
    root = build_snapshot(scratch)
    if root is None:
        return False, "replay constructor could not be generated for the current struct definition"
    src = open(os.path.join(scratch.snap, "src", FILES[T])).read()
    prog = program(T, src, ob.counterexample, op)
    d = os.path.join(scratch.root, "replayb_" + T)
    os.makedirs(os.path.join(d, "src"), exist_ok=True)
    open(os.path.join(d, "Cargo.toml"), "w").write(native.CARGO.replace('path = "../snap"', 'path = "../replay_snap"'))
    open(os.path.join(d, "src", "main.rs"), "w").write(prog)
    rc, out, secs = run(["cargo", "run", "--offline", "-q"], cwd=d, env={"CARGO_TARGET_DIR": os.path.join(scratch.root, "replay-target"), "RUST_BACKTRACE": "0"}, timeout=900)
    if "error: could not compile" in out or "error[E" in out:
        return False, "replay program did not build: " + out[-600:]
    tail = " | ".join(l for l in out.strip().splitlines()[-6:] if l.strip())[:700]
    if rc != 0:
        return True, ("reproduced on the real code (debug build) from the model's pre-state through the public API; the reachability of that "
                      "pre-state from a constructor is not shown: " + tail)
    return False, "the model's pre-state did not lead to a property-level failure within 6 calls (VC-level failure only): " + tail
