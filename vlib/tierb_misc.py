"""Small syntactic obligations that do not fit elsewhere."""
import re

from . import rsparse as rp, syn
from .common import DISCHARGED, FAILED, UNDECIDED, Obligation, Undecided

ZEROS = {"T::zero()", "0.0", "Complex::zero()", "T::coerce(0.0)", "0.0f64", "0.0f32", "T::zero"}


def _norm(t):
    return t.replace(" ", "")


HELPER_SRC = [None]     # source text in which helper functions called by reset() are looked up (set by the stage)


def classify_fill(body, field, value_ok, tgt=None, depth=0):
    """How does `body` (a fn body) treat the per-channel storage `self.<field>`?
    -> 'all' (every element of every channel set to an accepted value), 'partial' (a restricted range / count), 'none', 'unknown'"""
    tgt = tgt or ("self." + field)
    verdict = "none"
    for st in body[1] + ([("expr", body[2], False, 0)] if body[2] is not None else []):
        txt = _norm(rp.show(st))
        if _norm(tgt) not in txt:
            continue
        e = rp.strip_paren(st[1]) if st[0] == "expr" else None
        if e is None:
            verdict = "unknown"
            continue
        # a helper called with the storage as its only argument: classify the helper's body with its parameter as the target
        if e[0] == "call" and len(e[2]) == 1 and _norm(rp.show(e[2][0])) in ("&mut" + _norm(tgt), _norm(tgt)) and HELPER_SRC[0] and depth < 2:
            hname = rp.show(e[1]).split("::")[-1]
            try:
                hsig, hbody, _, _ = rp.find_fn(HELPER_SRC[0], hname, None)
                pm = re.search(r"\(\s*([a-z_][a-z_0-9]*)\s*:", hsig)
                if pm:
                    v = classify_fill(hbody, field, value_ok, tgt=pm.group(1), depth=depth + 1)
                    if v == "partial":
                        return "partial"
                    verdict = v if v in ("all",) else ("unknown" if verdict != "all" else verdict)
                    continue
            except rp.ParseError:
                pass
        restricted = bool(re.search(r"\.take\(|\.skip\(|\.step_by\(|\[[^\]]*\.\.[^\]]*\]", txt))
        ok = False
        # forms over the whole storage
        def inner_all(x, var):
            """x sets every element of `var` (one channel) to an accepted value"""
            t = _norm(rp.show(x))
            for z in ZEROS if value_ok is None else value_ok:
                zz = _norm(z)
                if t in ("%s.fill(%s)" % (var, zz), "%s.iter_mut().for_each(|s|*s=%s)" % (var, zz)):
                    return True
                if re.fullmatch(re.escape(var) + r"\.iter_mut\(\)\.for_each\(\|[a-z_]+\|\*[a-z_]+=" + re.escape(zz) + r"\)", t):
                    return True
            if x[0] == "for" and _norm(rp.show(x[2])) in (var + ".iter_mut()", "&mut" + var) and len(x[3][1]) + (1 if x[3][2] is not None else 0) == 1:
                b = x[3][1][0] if x[3][1] else ("expr", x[3][2], False, 0)
                bt = _norm(rp.show(b))
                v_ = x[1][2][0] if x[1][2] else "?"
                return any(bt == "*%s=%s" % (v_, _norm(z)) for z in (ZEROS if value_ok is None else value_ok))
            return False
        if value_ok is not None:
            # flat storage (the mask): fill / for_each / for / the crate's own helper
            ok = inner_all(e, _norm(tgt)) or txt == "update_mask_from_buffers(&mut%s)" % _norm(tgt)
        elif e[0] == "mcall" and e[2] == "for_each" and _norm(rp.show(e[1])) == _norm(tgt) + ".iter_mut()" and e[3] and rp.strip_paren(e[3][0])[0] == "closure":
            cl = rp.strip_paren(e[3][0])
            var = cl[2][0] if cl[2] else "?"
            body_ = rp.strip_paren(cl[3])
            if body_[0] == "block" and len(body_[1]) + (1 if body_[2] is not None else 0) == 1:
                body_ = rp.strip_paren((body_[1][0][1] if body_[1] else body_[2]))
            ok = inner_all(body_, var)
        elif e[0] == "for" and _norm(rp.show(e[2])) in (_norm(tgt) + ".iter_mut()", "&mut" + _norm(tgt)):
            var = e[1][2][0] if e[1][2] else "?"
            items = e[3][1] + ([("expr", e[3][2], False, 0)] if e[3][2] is not None else [])
            if len(items) == 1:
                x = rp.strip_paren(items[0][1]) if items[0][0] == "expr" else items[0]
                ok = inner_all(x, var)
        if ok and not restricted:
            verdict = "all"
        elif restricted:
            return "partial"
        elif verdict != "all":
            verdict = "unknown"
    return verdict


def storage_obligation(T, fn, body, field, label, mask=False):
    v = classify_fill(body, field, ["true"] if mask else None)
    name = "%s.reset :: %s" % (T, label)
    if v == "all":
        return Obligation(name, "syntactic", DISCHARGED, 0.0, "complete", [fn], checks=1)
    if v in ("partial", "none"):
        return Obligation(name, "syntactic", FAILED, 0.0, "complete", [fn], checks=1,
                          detail="reset() %s `self.%s`: a reset resampler is not identical to a fresh one" % (
                              "only re-initialises part of" if v == "partial" else "does not re-initialise", field))
    return Obligation(name, "syntactic", UNDECIDED, 0.0, "complete", [fn], checks=1,
                      detail="reset() touches `self.%s` in a form the recogniser does not know" % field)


FFT_STORAGE = {"FftFixedIn": ["overlaps", "input_buffers"], "FftFixedOut": ["overlaps", "output_buffers"], "FftFixedInOut": ["overlaps"]}


def fft_reset_stage(scratch, tier, log):
    """C10: reset() of the FFT adapters zeroes ALL per-channel storage and re-activates every channel."""
    obs = []
    src = scratch.read("synchro.rs")
    HELPER_SRC[0] = rp.strip_tests(src)
    norm = lambda t: t.replace(" ", "")
    for T, fields in FFT_STORAGE.items():
        fn = T + "::reset"
        try:
            sig, body, l0, _ = rp.find_fn(src, "reset", ["Resampler", "for " + T + "<"])
            for f in fields:
                obs.append(storage_obligation(T, fn, body, f, "C10 reset() zeroes every sample of every channel's `%s`" % f))
            obs.append(storage_obligation(T, fn, body, "channel_mask", "C10 reset() re-activates every channel", mask=True))
        except (rp.ParseError, Undecided) as e:
            obs.append(Obligation("%s.reset :: storage zeroed" % T, "extraction", UNDECIDED, detail=str(e), functions=[fn]))
    return obs


# ------------------------------------------------------------------------------------------------ C14: FFT filter geometry
def fft_filter_stage(scratch, tier, log):
    """C14 (FFT adapters): the reported delay fft_size_out/2 (Verus, Tier C) is the true lag only if the anti-aliasing filter that
    FftResampler::new builds is the `fft_size_in`-tap windowed sinc laid out from tap 0 of the 2*fft_size_in block: its centre - the
    group delay - is then fft_size_in/2 input frames == fft_size_out/2 output frames.  Contract of the real constructor, for every
    fft_size_in >= 1 (Z3 on the extracted size expressions; kernel symmetry of make_sincs itself stays trusted: L-centre)."""
    import z3
    from . import smt
    obs = []
    fn = "FftResampler::new"
    name = lambda s: "FftResampler.new :: C14 %s" % s
    try:
        src = scratch.read("synchro.rs")
        sig, body, l0, _ = rp.find_fn(src, "new", ["FftResampler<"])
        env = smt.Env("slack")
        n_in, n_out = z3.Int("fft_size_in"), z3.Int("fft_size_out")
        env.vars["fft_size_in"] = smt.Val(n_in, "usize")
        env.vars["fft_size_out"] = smt.Val(n_out, "usize")
        env.assumes += [n_in >= 1, n_out >= 1, n_in < 2 ** 24, n_out < 2 ** 24]
        consts = dict((m.group(1), int(m.group(2).replace("_", ""))) for m in re.finditer(r"^\s*(?:pub(?:\([a-z]+\))?\s+)?const\s+([A-Z_0-9]+)\s*:\s*usize\s*=\s*([0-9_]+)\s*;", src, re.M))
        for k_, v_ in consts.items():
            env.vars[k_] = smt.Val(z3.IntVal(v_), "usize")
        sinc_len = sinc_factor = take = None
        fill_ok = None
        for st in body[1]:
            calls = [n for n in rp.walk(st) if n[0] == "call" and rp.show(n[1]).replace(" ", "").startswith("make_sincs")]
            if calls:
                sinc_len, sinc_factor = env.ev(calls[0][2][0]), env.ev(calls[0][2][1])
                sinc_var = st[1][2][0] if st[0] == "let" and st[1][2] else "sinc"
                continue
            e = rp.strip_paren(st[1]) if st[0] == "expr" else None
            if e is not None and e[0] == "for" and "filter_t" in rp.show(e[2]):
                it = _norm(rp.show(e[2]))
                m = re.fullmatch(r"filter_t\.iter_mut\(\)\.enumerate\(\)\.take\((.*)\)", it)
                if not m:
                    raise Undecided("filter fill loop in a form the recogniser does not know: %s" % rp.show(e[2]))
                tk = [n for n in rp.walk(e[2]) if n[0] == "mcall" and n[2] == "take"][0]
                take = env.ev(tk[3][0])
                vars_ = e[1][2]
                items = e[3][1] + ([("expr", e[3][2], False, 0)] if e[3][2] is not None else [])
                bt = _norm(rp.show(items[0])) if len(items) == 1 else ""
                fill_ok = len(vars_) == 2 and bool(re.fullmatch(r"\*%s=\(?%s\[0\]\[%s\]/.*" % (re.escape(vars_[1]), re.escape(sinc_var), re.escape(vars_[0])), bt.rstrip(";")))
                continue
            if st[0] == "let":
                try:
                    env.exec_stmt(st)
                except (Undecided, KeyError, AttributeError, TypeError):
                    for nme in st[1][2]:
                        env.vars[nme] = smt.Val(None, "opaque")
        if sinc_len is None or take is None:
            raise Undecided("anchor lost: make_sincs call or filter fill loop not found in FftResampler::new")

        def prove(label, goal):
            s = z3.Solver()
            s.set("timeout", 20000)
            s.add(env.assumes)
            s.add(z3.Not(goal))
            r = s.check()
            if r == z3.unsat:
                obs.append(Obligation(name(label), "z3", DISCHARGED, 0.0, "complete", [fn], checks=1))
            elif r == z3.sat:
                m = s.model()
                cex = {"fft_size_in": str(m.eval(n_in, True)), "fft_size_out": str(m.eval(n_out, True))}
                obs.append(Obligation(name(label), "z3", FAILED, 0.0, "complete", [fn], checks=1, counterexample=cex,
                                      detail="does not hold, e.g. for fft_size_in = %s: the filter's centre is then not at fft_size_in/2 input frames and "
                                             "output_delay() == fft_size_out/2 is not the lag of the output stream" % cex["fft_size_in"]))
            else:
                obs.append(Obligation(name(label), "z3", UNDECIDED, 0.0, "complete", [fn], checks=1, detail="z3: unknown"))
        if sinc_len.t is None or take.t is None or sinc_factor.t is None:
            raise Undecided("filter length is not an integer expression of fft_size_in")
        prove("the anti-aliasing filter has exactly fft_size_in taps (make_sincs length == fft_size_in, one sub-filter)",
              z3.And(sinc_len.t == n_in, sinc_factor.t == 1))
        prove("all fft_size_in taps are laid out from tap 0 of the FFT block (fill count == fft_size_in)", take.t == n_in)
        obs.append(Obligation(name("tap n of the block is tap n of the windowed sinc (scaled), in order"), "syntactic",
                              DISCHARGED if fill_ok else UNDECIDED, 0.0, "complete", [fn], checks=1,
                              detail="" if fill_ok else "fill loop body in a form the recogniser does not know"))
    except (rp.ParseError, Undecided, IndexError) as e:
        obs.append(Obligation(name("filter geometry"), "extraction", UNDECIDED, detail=str(e), functions=[fn]))
    return obs
