"""Small syntactic obligations that do not fit elsewhere."""
import re

from . import rsparse as rp, syn
from .common import DISCHARGED, FAILED, UNDECIDED, Obligation, Undecided

ZEROS = {"T::zero()", "0.0", "Complex::zero()", "T::coerce(0.0)", "0.0f64", "0.0f32", "T::zero"}


def _norm(t):
    return t.replace(" ", "")


def classify_fill(body, field, value_ok):
    """How does `body` (a fn body) treat the per-channel storage `self.<field>`?
    -> 'all' (every element of every channel set to an accepted value), 'partial' (a restricted range / count), 'none', 'unknown'"""
    tgt = "self." + field
    verdict = "none"
    for st in body[1] + ([("expr", body[2], False, 0)] if body[2] is not None else []):
        txt = _norm(rp.show(st))
        if _norm(tgt) not in txt:
            continue
        e = rp.strip_paren(st[1]) if st[0] == "expr" else None
        if e is None:
            verdict = "unknown"
            continue
        restricted = bool(re.search(r"\.take\(|\.skip\(|\.step_by\(|\[[^\]]*\.\.[^\]]*\]", txt))
        ok = False
        # forms over the whole storage
        def inner_all(x, var):
            """x sets every element of `var` (one channel) to an accepted value"""
            t = _norm(rp.show(x))
            for z in ZEROS if value_ok is None else value_ok:
                zz = _norm(z)
                if t in ("%s.fill(%s)" % (var, zz), "%s.iter_mut().for_each(|s|*s=%s)" % (var, zz)):
                    return True
                if re.fullmatch(re.escape(var) + r"\.iter_mut\(\)\.for_each\(\|[a-z_]+\|\*[a-z_]+=" + re.escape(zz) + r"\)", t):
                    return True
            if x[0] == "for" and _norm(rp.show(x[2])) in (var + ".iter_mut()", "&mut" + var) and len(x[3][1]) + (1 if x[3][2] is not None else 0) == 1:
                b = x[3][1][0] if x[3][1] else ("expr", x[3][2], False, 0)
                bt = _norm(rp.show(b))
                v_ = x[1][2][0] if x[1][2] else "?"
                return any(bt == "*%s=%s" % (v_, _norm(z)) for z in (ZEROS if value_ok is None else value_ok))
            return False
        if value_ok is not None:
            # flat storage (the mask): fill / for_each / for / the crate's own helper
            ok = inner_all(e, _norm(tgt)) or txt == "update_mask_from_buffers(&mut%s)" % _norm(tgt)
        elif e[0] == "mcall" and e[2] == "for_each" and _norm(rp.show(e[1])) == _norm(tgt) + ".iter_mut()" and e[3] and rp.strip_paren(e[3][0])[0] == "closure":
            cl = rp.strip_paren(e[3][0])
            var = cl[2][0] if cl[2] else "?"
            body_ = rp.strip_paren(cl[3])
            if body_[0] == "block" and len(body_[1]) + (1 if body_[2] is not None else 0) == 1:
                body_ = rp.strip_paren((body_[1][0][1] if body_[1] else body_[2]))
            ok = inner_all(body_, var)
        elif e[0] == "for" and _norm(rp.show(e[2])) in (_norm(tgt) + ".iter_mut()", "&mut" + _norm(tgt)):
            var = e[1][2][0] if e[1][2] else "?"
            items = e[3][1] + ([("expr", e[3][2], False, 0)] if e[3][2] is not None else [])
            if len(items) == 1:
                x = rp.strip_paren(items[0][1]) if items[0][0] == "expr" else items[0]
                ok = inner_all(x, var)
        if ok and not restricted:
            verdict = "all"
        elif restricted:
            return "partial"
        elif verdict != "all":
            verdict = "unknown"
    return verdict


def storage_obligation(T, fn, body, field, label, mask=False):
    v = classify_fill(body, field, ["true"] if mask else None)
    name = "%s.reset :: %s" % (T, label)
    if v == "all":
        return Obligation(name, "syntactic", DISCHARGED, 0.0, "complete", [fn], checks=1)
    if v in ("partial", "none"):
        return Obligation(name, "syntactic", FAILED, 0.0, "complete", [fn], checks=1,
                          detail="reset() %s `self.%s`: a reset resampler is not identical to a fresh one" % (
                              "only re-initialises part of" if v == "partial" else "does not re-initialise", field))
    return Obligation(name, "syntactic", UNDECIDED, 0.0, "complete", [fn], checks=1,
                      detail="reset() touches `self.%s` in a form the recogniser does not know" % field)


FFT_STORAGE = {"FftFixedIn": ["overlaps", "input_buffers"], "FftFixedOut": ["overlaps", "output_buffers"], "FftFixedInOut": ["overlaps"]}


def fft_reset_stage(scratch, tier, log):
    """C10: reset() of the FFT adapters zeroes ALL per-channel storage and re-activates every channel."""
    obs = []
    src = scratch.read("synchro.rs")
    norm = lambda t: t.replace(" ", "")
    for T, fields in FFT_STORAGE.items():
        fn = T + "::reset"
        try:
            sig, body, l0, _ = rp.find_fn(src, "reset", ["Resampler", "for " + T + "<"])
            for f in fields:
                obs.append(storage_obligation(T, fn, body, f, "C10 reset() zeroes every sample of every channel's `%s`" % f))
            obs.append(storage_obligation(T, fn, body, "channel_mask", "C10 reset() re-activates every channel", mask=True))
        except (rp.ParseError, Undecided) as e:
            obs.append(Obligation("%s.reset :: storage zeroed" % T, "extraction", UNDECIDED, detail=str(e), functions=[fn]))
    return obs
