"""Small syntactic obligations that do not fit elsewhere."""
from . import rsparse as rp, syn
from .common import DISCHARGED, FAILED, UNDECIDED, Obligation, Undecided

FFT_STORAGE = {"FftFixedIn": ["overlaps", "input_buffers"], "FftFixedOut": ["overlaps", "output_buffers"], "FftFixedInOut": ["overlaps"]}


def fft_reset_stage(scratch, tier, log):
    """C10: reset() of the FFT adapters zeroes ALL per-channel storage and re-activates every channel."""
    obs = []
    src = scratch.read("synchro.rs")
    norm = lambda t: t.replace(" ", "")
    for T, fields in FFT_STORAGE.items():
        fn = T + "::reset"
        try:
            sig, body, l0, _ = rp.find_fn(src, "reset", ["Resampler", "for " + T + "<"])
            stm = [norm(rp.show(st)) for st in body[1]] + ([norm(rp.show(body[2]))] if body[2] is not None else [])
            for f in fields + ["channel_mask"]:
                if f == "channel_mask":
                    want = "self.channel_mask.iter_mut().for_each(|val| *val = true)"
                    label = "C10 reset() re-activates every channel"
                else:
                    want = "self.%s.iter_mut().for_each(|ch| ch.iter_mut().for_each(|s| *s = T::zero()))" % f
                    label = "C10 reset() zeroes every sample of every channel's `%s`" % f
                ok = norm(want) in stm
                obs.append(Obligation("%s.reset :: %s" % (T, label), "syntactic", DISCHARGED if ok else FAILED, 0.0, "complete", [fn], checks=1,
                                      detail="" if ok else "reset() does not contain `%s`: stale samples survive a reset" % want))
        except (rp.ParseError, Undecided) as e:
            obs.append(Obligation("%s.reset :: storage zeroed" % T, "extraction", UNDECIDED, detail=str(e), functions=[fn]))
    return obs
