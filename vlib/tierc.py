"""Tier C: Verus on mechanically extracted integer control slices of the FFT adapters (synchro.rs).

On every run the bodies of FftFixedIn/Out/InOut::{new, process_into_buffer, reset, getters} are parsed from the
snapshot, every statement that computes or assigns tracked `usize` state is kept *verbatim* (re-rendered from
the AST), in order, and spliced into /verif/verus/synchro_slices.rs.tmpl at the `//@stmt <key>` markers; the
specifications, ghost accounting and proof hints live in the template.  What the extraction drops, exactly:
the mask update, the validate_buffers call, every statement that only touches sample storage (channel loops,
copies, resample_unit calls, debug_assert!/debug!), the non-usize struct fields and the FftResampler.  A dropped
statement that assigns tracked state, or a kept statement the template has no marker for (or in another
order), is exit 2 (undecided), never an alarm.  The two float idioms `(a as f32 / b as f32).ceil()/.floor() as
usize` are rewritten to ceil_div_f32/floor_div_f32 (external_body, trusted lemma L-f32div: exact for
a, b < 2^24) and num_integer::gcd to gcd_usize (external_body, assumed divisibility spec).
"""
import json
import os
import re
import time

from . import rsparse as rp, syn
from .common import DISCHARGED, FAILED, UNDECIDED, VERIF, Obligation, Undecided, run

TRACKED = {
    "FftFixedIn": ["chunk_size_in", "fft_size_in", "fft_size_out", "saved_frames", "nbr_channels", "overlaps", "input_buffers"],
    "FftFixedOut": ["chunk_size_out", "fft_size_in", "fft_size_out", "saved_frames", "frames_needed", "nbr_channels", "overlaps", "output_buffers"],
    "FftFixedInOut": ["chunk_size_in", "chunk_size_out", "fft_size_in", "nbr_channels", "overlaps"],
}
# per-channel storage is tracked by its per-channel LENGTH (a usize ghost of the Vec)
STORAGE = {"overlaps", "input_buffers", "output_buffers"}
INT_PARAMS = {"sample_rate_input", "sample_rate_output", "chunk_size_in", "chunk_size_out", "sub_chunks", "nbr_channels"}


def rewrite(e):
    """AST rewrite of the float idioms and gcd; everything else structural."""
    e = rp.strip_paren(e)
    k = e[0]
    if k == "cast" and e[2].replace(" ", "") == "usize":
        inner = rp.strip_paren(e[1])
        if inner[0] == "mcall" and inner[2] in ("ceil", "floor") and not inner[3]:
            d = rp.strip_paren(inner[1])
            if d[0] == "binary" and d[1] == "/":
                a, b = rp.strip_paren(d[2]), rp.strip_paren(d[3])
                if a[0] == "cast" and b[0] == "cast" and a[2].strip() == "f32" and b[2].strip() == "f32":
                    return ("call", ("path", ["%s_div_f32" % inner[2]]), [rewrite(a[1]), rewrite(b[1])])
        raise Undecided("float->usize cast outside the recognised idiom: %s" % rp.show(e))
    if k == "call" and rp.show(e[1]) in ("integer::gcd", "num_integer::gcd", "gcd"):
        return ("call", ("path", ["gcd_usize"]), [rewrite(a) for a in e[2]])
    if k == "binary":
        return ("binary", e[1], rewrite(e[2]), rewrite(e[3]))
    if k == "unary":
        return ("unary", e[1], rewrite(e[2]))
    if k == "cast":
        raise Undecided("cast in integer slice: %s" % rp.show(e))
    if k == "mcall":
        if rp.show(e[1]) == "self" and not e[3]:
            return e
        if e[2] in ("max", "min", "saturating_sub") and len(e[3]) == 1:
            # integer helpers with verified contracts in the Verus prelude
            return ("call", ("path", [{"max": "max_usize", "min": "min_usize", "saturating_sub": "sat_sub_usize"}[e[2]]]), [rewrite(e[1]), rewrite(e[3][0])])
        raise Undecided("method call in integer slice: %s" % rp.show(e))
    if k == "if":
        return ("if", rewrite(e[1]), rewrite_block(e[2]), rewrite_block(e[3]) if e[3] is not None and e[3][0] == "block" else (rewrite(e[3]) if e[3] else None), 0)
    if k in ("num", "path", "field"):
        return e
    if k == "tuple":
        return ("tuple", [rewrite(a) for a in e[1]])
    raise Undecided("expression kind %s in integer slice: %s" % (k, rp.show(e)[:80]))


def rewrite_block(b):
    if b[1]:
        raise Undecided("statements inside a value block of the integer slice")
    return ("block", [], rewrite(b[2]))


def is_int_expr(e, known):
    """Only integer-valued constructs over tracked fields / known integer locals (the f32 idiom counts)."""
    try:
        r = rewrite(e)
    except Undecided:
        return False
    for n in rp.walk(r):
        if n[0] == "path" and len(n[1]) == 1 and n[1][0] not in known and n[1][0] not in ("self", "gcd_usize", "ceil_div_f32", "floor_div_f32", "max_usize", "min_usize", "sat_sub_usize"):
            return False
        if n[0] == "field":
            if rp.show(n[1]) != "self" or n[2] not in known:
                return False
        if n[0] == "num" and ("." in n[1] or n[2] in ("f32", "f64")):
            return False
        if n[0] == "mcall" and n[2] not in known:
            return False
    return True


def render_expr(e):
    e = rp.strip_paren(e)
    if e[0] == "if":
        els = e[3]
        return "if %s { %s } else { %s }" % (render_expr(e[1]), render_expr(e[2][2]), render_expr(els[2]) if els[0] == "block" else render_expr(els))
    if e[0] == "binary":
        return "(%s %s %s)" % (render_expr(e[2]), e[1], render_expr(e[3]))
    if e[0] == "call":
        return "%s(%s)" % (rp.show(e[1]), ", ".join(render_expr(a) for a in e[2]))
    if e[0] == "tuple":
        return "(%s)" % ", ".join(render_expr(a) for a in e[1])
    return rp.show(e)



# ---- range obligations of dropped data-movement statements (C03 for the FFT adapters)
def _len_of(base, aliases):
    """spec expression for the length of a slice-valued expression, or None.  Per-channel storage `self.<f>[chan]` has the tracked
    length `self.<f>`; the caller's buffers have the arbitrary lengths win_len / wout_len that validate_buffers bounded from below;
    `x[a..b]` has length b - a; locals bound to such expressions are aliases."""
    b = rp.strip_paren(base)
    if b[0] == "unary" and b[1] in ("&", "&mut"):
        return _len_of(b[2], aliases)
    if b[0] == "path" and len(b[1]) == 1 and b[1][0] in aliases:
        return aliases[b[1][0]]
    if b[0] == "mcall" and b[2] in ("as_ref", "as_mut", "iter", "iter_mut") and not b[3]:
        inner = rp.strip_paren(b[1])
        if inner[0] == "index" and rp.show(inner[1]) in ("wave_in", "wave_out"):
            return "win_len" if rp.show(inner[1]) == "wave_in" else "wout_len"
        return _len_of(inner, aliases)
    if b[0] == "index":
        tgt, idx = rp.strip_paren(b[1]), rp.strip_paren(b[2])
        if idx[0] == "range":
            ln = _len_of(tgt, aliases)
            if ln is None:
                return None
            lo = _spec(idx[1], aliases) if idx[1] is not None else "0"
            hi = _spec(idx[2], aliases) if idx[2] is not None else ln
            if lo is None or hi is None:
                return None
            if idx[3]:
                hi = "(%s + 1)" % hi
            return "(%s - %s)" % (hi, lo)
        if tgt[0] == "field" and rp.show(tgt[1]) == "self" and tgt[2] in STORAGE:
            return "self.%s" % tgt[2]
    return None


def _spec(e, aliases):
    """integer expression -> Verus spec text (mathematical integers), or None"""
    e = rp.strip_paren(e)
    if e[0] == "mcall" and e[2] == "len" and not e[3]:
        return _len_of(e[1], aliases)
    if e[0] == "binary" and e[1] in ("+", "-", "*", "/"):
        a, b = _spec(e[2], aliases), _spec(e[3], aliases)
        if a is None or b is None:
            return None
        return "(%s %s %s)" % (a, e[1], b) if e[1] != "/" else "((%s) as int / (%s) as int)" % (a, b)
    if e[0] == "num" and re.fullmatch(r"[0-9_]+", e[1]):
        return e[1]
    if e[0] == "field" and rp.show(e[1]) == "self":
        return "self.%s" % e[2]
    if e[0] == "path" and len(e[1]) == 1:
        if e[1][0] in aliases and aliases[e[1][0]].startswith("="):
            return aliases[e[1][0]][1:]
        return e[1][0]
    return None


def range_obligations(st, known, aliases, unit=("self.fft_size_in", "self.fft_size_out")):
    """asserts for every range-indexing / copy_within / chunks(n) in a dropped statement whose bounds are integer expressions of the
    tracked state; (text, source) pairs.  Expressions over loop-local names are skipped (iterator adaptors cannot panic)."""
    out = []
    def ok_names(txt):
        for nme in re.findall(r"[A-Za-z_][A-Za-z_0-9]*", re.sub(r"self\.[A-Za-z_0-9]+", "", txt)):
            if nme not in known and nme not in ("win_len", "wout_len", "as", "int") and not nme.isdigit():
                return False
        return True
    # local aliases introduced inside the statement (let input = wave_in[chan].as_ref();)
    al = dict(aliases)
    for n in rp.walk(st):
        if n[0] == "let" and n[3] is not None and len(n[1][2]) == 1:
            ln = _len_of(n[3], al)
            if ln is not None:
                al[n[1][2][0]] = ln
    for n in rp.walk(st):
        if n[0] == "index" and rp.strip_paren(n[2])[0] == "range":
            r_ = rp.strip_paren(n[2])
            ln = _len_of(n[1], al)
            lo = _spec(r_[1], al) if r_[1] is not None else "0"
            hi = _spec(r_[2], al) if r_[2] is not None else ln
            if ln is None or lo is None or hi is None:
                continue
            if r_[3]:
                hi = "(%s + 1)" % hi
            cond = "0 <= %s && %s <= %s && %s <= %s" % (lo, lo, hi, hi, ln)
            if ok_names(cond):
                out.append((cond, rp.show(n)[:90]))
        if n[0] == "mcall" and n[2] == "copy_within" and len(n[3]) == 2 and rp.strip_paren(n[3][0])[0] == "range":
            r_ = rp.strip_paren(n[3][0])
            ln = _len_of(n[1], al)
            lo = _spec(r_[1], al) if r_[1] is not None else "0"
            hi = _spec(r_[2], al) if r_[2] is not None else ln
            d = _spec(n[3][1], al)
            if ln is None or lo is None or hi is None or d is None:
                continue
            cond = "%s <= %s && %s <= %s && %s + (%s - %s) <= %s" % (lo, hi, hi, ln, d, hi, lo, ln)
            if ok_names(cond):
                out.append((cond, rp.show(n)[:90]))
        if n[0] == "mcall" and n[2] in ("chunks", "chunks_mut", "chunks_exact", "chunks_exact_mut") and len(n[3]) == 1:
            k_ = _spec(n[3][0], al)
            if k_ is not None and ok_names(k_):
                out.append(("%s > 0" % k_, rp.show(n)[:90]))
        if n[0] == "mcall" and n[2] == "resample_unit" and len(n[3]) == 3:
            # callee precondition (its body does `input_buf[0..fft_size_in].copy_from_slice(wave_in)` and `overlap.copy_from_slice(..)`):
            # the input block has exactly fft_size_in frames, the overlap exactly fft_size_out
            a0 = rp.strip_paren(n[3][0])
            ov = _len_of(n[3][2], al)
            if ov is not None and ok_names(ov):
                out.append(("%s == %s" % (ov, unit[1]), "resample_unit(.., .., %s)" % rp.show(n[3][2])[:50]))
            l0 = _len_of(a0, al)
            if l0 is not None and ok_names(l0):
                out.append(("%s == %s" % (l0, unit[0]), "resample_unit(%s, ..)" % rp.show(a0)[:60]))
            elif a0[0] == "path" and len(a0[1]) == 1:
                # a block produced by `X.chunks(F)[.take(N)]` in the enclosing for loop: every block must be a full one
                for fl in rp.walk(st):
                    if fl[0] == "for" and a0[1][0] in fl[1][2]:
                        ch = [m_ for m_ in rp.walk(fl[2]) if m_[0] == "mcall" and m_[2] == "chunks" and len(m_[3]) == 1]
                        tk = [m_ for m_ in rp.walk(fl[2]) if m_[0] == "mcall" and m_[2] == "take" and len(m_[3]) == 1 and rp.strip_paren(m_[1])[0] == "mcall" and rp.strip_paren(m_[1])[2] == "chunks"]
                        if len(ch) == 1:
                            F, X = _spec(ch[0][3][0], al), _len_of(ch[0][1], al)
                            if F is not None and X is not None:
                                if tk and rp.strip_paren(tk[0][1]) is ch[0] or (tk and rp.show(rp.strip_paren(tk[0][1])) == rp.show(ch[0])):
                                    N = _spec(tk[0][3][0], al)
                                    cond = "%s == %s && %s * %s <= %s" % (F, unit[0], N, F, X) if N is not None else None
                                else:
                                    cond = "%s == %s && (%s) as int %% (%s) as int == 0" % (F, unit[0], X, F)
                                if cond and ok_names(cond):
                                    out.append((cond, "resample_unit(<block of %s>, ..)" % rp.show(ch[0])[:70]))
        if n[0] == "mcall" and n[2] == "copy_from_slice" and len(n[3]) == 1:
            a, b = _len_of(n[1], al), _len_of(n[3][0], al)
            if a is not None and b is not None and ok_names(a + b):
                out.append(("%s == %s" % (a, b), rp.show(n)[:90]))
    return out


def slice_body(T, body, known0, sigs):
    """-> list of (key, rendered statement text). Raises Undecided on anything ambiguous."""
    tracked = set(TRACKED[T])
    known = set(known0) | tracked | {"output_frames_max", "input_frames_max"}
    out = []
    items = list(body[1]) + ([("tail", body[2])] if body[2] is not None else [])
    for st in items:
        if st[0] == "let":
            pat, ty, init = st[1], st[2], st[3]
            names = pat[2]
            if init is not None and len(names) == 1 and names[0] in STORAGE and names[0] in tracked:
                # let overlaps: Vec<Vec<T>> = vec![vec![T::zero(); LEN]; nbr_channels];  ->  the per-channel length
                m = rp.strip_paren(init)
                ok = False
                if m[0] == "macro" and m[1] == "vec" and m[2] and m[2][0][0] == "repeat":
                    inner = rp.strip_paren(m[2][0][1])
                    if inner[0] == "macro" and inner[1] == "vec" and inner[2] and inner[2][0][0] == "repeat" and is_int_expr(inner[2][0][2], known):
                        out.append(("let " + names[0], "let %s: usize = %s;" % (names[0], render_expr(rewrite(inner[2][0][2])))))
                        known.add(names[0])
                        ok = True
                if not ok:
                    raise Undecided("allocation of %s is not `vec![vec![T::zero(); LEN]; nbr_channels]`" % names[0])
                continue
            if init is not None and len(names) == 1 and is_int_expr(init, known):
                out.append(("let " + names[0], "let %s = %s;" % (pat[1], render_expr(rewrite(init)))))
                known.add(names[0])
                continue
            # dropped let: must not mention it later in kept code -> handled by `known`
            continue
        if st[0] == "tail":
            e = rp.strip_paren(st[1])
            if e[0] == "call" and rp.show(e[1]) == "Ok" and len(e[2]) == 1:
                inner = rp.strip_paren(e[2][0])
                if inner[0] == "tuple" and all(is_int_expr(x, known) for x in inner[1]):
                    out.append(("return", render_expr(rewrite(inner))))
                    continue
                if inner[0] == "struct":
                    fields = {}
                    for fname, val in inner[2]:
                        if fname in tracked:
                            if not is_int_expr(val, known):
                                raise Undecided("constructor field %s is not an integer expression" % fname)
                            fields[fname] = render_expr(rewrite(val))
                    out.append(("struct", fields))
                    continue
            if is_int_expr(e, known):
                out.append(("return", render_expr(rewrite(e))))
                continue
            raise Undecided("tail expression of %s not understood: %s" % (T, rp.show(e)[:80]))
        if st[0] == "expr":
            e = rp.strip_paren(st[1])
            if e[0] == "assign":
                place = syn.place_of(e[2])
                if place and place.startswith("self.") and place[5:] in tracked:
                    if rp.show(e[2]) != place or not is_int_expr(e[3], known) or e[1] not in ("=", "+=", "-=", "*=", "/="):
                        raise Undecided("assignment to tracked state not in slice form: %s" % rp.show(e)[:100])
                    rhs = render_expr(rewrite(e[3]))
                    if e[1] != "=":
                        rhs = "(%s %s %s)" % (place, e[1][0], rhs)
                    out.append((place + " =", "%s = %s;" % (place, rhs)))
                    continue
            if e[0] == "if":
                kept = slice_if(T, e, known, sigs)
                if kept is not None:
                    out.append(("if " + render_expr(rewrite(e[1])), kept))
                    continue
            # validate_buffers(wave_in, wave_out, mask, channels, MIN_IN, MIN_OUT)?: past this point every active channel's slices have
            # at least these lengths (its Kani contract, kani/verif_lib__c13.rs); the lengths themselves are arbitrary
            vb = [n for n in rp.walk(st) if n[0] == "call" and rp.show(n[1]) == "validate_buffers" and len(n[2]) == 6]
            if vb and is_int_expr(vb[0][2][4], known) and is_int_expr(vb[0][2][5], known):
                out.append(("validate_buffers", "let win_len: usize = any_usize(); let wout_len: usize = any_usize(); assume(win_len >= %s && wout_len >= %s);" % (
                    render_expr(rewrite(vb[0][2][4])), render_expr(rewrite(vb[0][2][5])))))
                known |= {"win_len", "wout_len"}
                continue
            if "win_len" in known:
                for (cond, srctxt) in range_obligations(st, known, {}, UNIT.get(T, ("self.fft_size_in", "self.fft_size_out"))):
                    out.append(("range", "assert(%s);   // C03 range obligation of `%s`" % (cond, srctxt.replace("\n", " "))))
            # dropped statement: must not write tracked state; an early non-error return is kept with its condition
            # abstracted to an arbitrary boolean (error exits are outside the Ok-path contract)
            for n in rp.walk(st):
                if n[0] == "return" and not (n[1] is not None and rp.show(n[1]).startswith("Err(")):
                    v = rp.strip_paren(n[1]) if n[1] is not None else None
                    if v is not None and v[0] == "call" and rp.show(v[1]) == "Ok" and len(v[2]) == 1 and \
                            rp.strip_paren(v[2][0])[0] == "tuple" and all(is_int_expr(x, known) for x in rp.strip_paren(v[2][0])[1]):
                        out.append(("early-return", render_expr(rewrite(rp.strip_paren(v[2][0])))))
                    else:
                        raise Undecided("early non-error return inside a dropped statement: %s" % rp.show(n)[:80])
            for (place, how, ln) in syn.collect_writes(st, sigs):
                if place and place.startswith("self.") and place[5:] in tracked:
                    if place[5:] in STORAGE and not re.search(r"push|resize|truncate|clear|extend|insert|remove|pop|append|drain|assignment", how):
                        continue        # sample data written into the storage: its length (what is tracked) is unchanged
                    raise Undecided("tracked state %s is modified inside a dropped statement (%s)" % (place, how))
                if place in ("self.*", "self.?"):
                    raise Undecided("dropped statement calls a self method of unknown effect (%s)" % how)
            continue
    return out


def slice_if(T, e, known, sigs):
    """An if/else is kept when a branch assigns tracked state; dropped loops inside are checked for writes."""
    tracked = set(TRACKED[T])

    def branch(b):
        lines = []
        any_kept = False
        if b is None:
            return "", False
        for st in b[1] + ([("expr", b[2], False, 0)] if b[2] is not None else []):
            if st[0] == "expr":
                x = rp.strip_paren(st[1])
                if x[0] == "assign":
                    place = syn.place_of(x[2])
                    if place and place.startswith("self.") and place[5:] in tracked:
                        if x[1] not in ("=", "+=", "-=", "*=", "/=") or not is_int_expr(x[3], known):
                            raise Undecided("assignment to tracked state not in slice form: %s" % rp.show(x)[:100])
                        rhs = render_expr(rewrite(x[3]))
                        if x[1] != "=":
                            rhs = "(%s %s %s)" % (place, x[1][0], rhs)
                        lines.append("%s = %s;" % (place, rhs))
                        any_kept = True
                        continue
            if "win_len" in known:
                # range obligations of a dropped statement inside the branch, evaluated at its position (after the assignments above)
                for (cond, srctxt) in range_obligations(st, known, {}, UNIT.get(T, ("self.fft_size_in", "self.fft_size_out"))):
                    lines.append("assert(%s);" % cond)
            for (place, how, ln) in syn.collect_writes(st, sigs):
                if place and place.startswith("self.") and place[5:] in tracked:
                    if place[5:] in STORAGE and not re.search(r"push|resize|truncate|clear|extend|insert|remove|pop|append|drain|assignment", how):
                        continue
                    raise Undecided("tracked state %s is modified inside a dropped statement (%s)" % (place, how))
        return " ".join(lines), any_kept

    if not is_int_expr(e[1], known):
        return None
    t, k1 = branch(e[2])
    els = e[3]
    if els is not None and els[0] != "block":
        raise Undecided("else-if chain in integer slice")
    f, k2 = branch(els)
    if not (k1 or k2):
        return None
    return "if %s { %s } else { %s }" % (render_expr(rewrite(e[1])), t, f)


FUNCS = {
    "FftFixedIn": ["new", "process_into_buffer", "reset", "input_frames_max", "input_frames_next", "output_frames_max",
                   "output_frames_next", "output_delay"],
    "FftFixedOut": ["new", "process_into_buffer", "reset", "input_frames_max", "input_frames_next", "output_frames_max",
                    "output_frames_next", "output_delay"],
    "FftFixedInOut": ["new", "process_into_buffer", "reset", "input_frames_max", "input_frames_next", "output_frames_max",
                      "output_frames_next", "output_delay"],
}


UNIT = {}      # T -> (spec text of the FftResampler's fft_size_in, fft_size_out) in terms of T's own fields


def unit_sizes(T, body):
    """The sizes the constructor hands to FftResampler::new, expressed through the struct fields that are initialised with the same locals."""
    call = [n for n in rp.walk(body) if n[0] == "call" and "FftResampler" in rp.show(n[1]) and rp.show(n[1]).endswith("new") and len(n[2]) == 2]
    lit = [n for n in rp.walk(body) if n[0] == "struct"]
    if len(call) != 1 or not lit:
        raise Undecided("constructor of %s: FftResampler::new call or struct literal not found" % T)
    res = []
    for a in call[0][2]:
        a_txt = rp.show(rp.strip_paren(a))
        cands = [f for f, v in lit[-1][2] if rp.show(rp.strip_paren(v)) == a_txt and f in TRACKED[T]]
        if not cands:
            raise Undecided("constructor of %s: no tracked field holds the unit size `%s`" % (T, a_txt))
        res.append("self.%s" % (a_txt if a_txt in cands else cands[0]))
    return tuple(res)


def extract_all(src):
    sigs = syn.self_method_sigs(src)
    out = {}
    for T, fns in FUNCS.items():
        sig, body, l0, _ = rp.find_fn(src, "new", ["impl<T> " + T + "<"])
        UNIT[T] = unit_sizes(T, body)
        for fn in fns:
            impl = ["impl<T> " + T + "<"] if fn == "new" else ["Resampler", "for " + T + "<"]
            sig, body, l0, _ = rp.find_fn(src, fn, impl)
            known = INT_PARAMS if fn == "new" else set()
            out["%s::%s" % (T, fn)] = slice_body(T, body, known, sigs)
    return out


LOST_HINTS = {}     # contract function -> keys of template markers whose proof hints found no statement (filled by instantiate)


def instantiate(template, slices):
    """Build the Verus file: inside each contract function of the template, the lines between two `//@stmt` markers are
    proof hints attached to the preceding marker (before the first marker: prologue).  The body is regenerated from the
    *extracted* statements in source order; a statement takes the hints of the first unused marker with a matching key.
    Statements without a marker are emitted as they are, markers without a statement lose their hints - so the slice may
    change shape freely and Verus decides whether the contract still holds."""
    out = []
    lines = template.splitlines()
    i = 0
    while i < len(lines):
        line = lines[i]
        m = re.match(r"^(\s*)//@stmt (\S+) (.*)$", line)
        if not m:
            out.append(line)
            i += 1
            continue
        # collect the whole marker region of this function: from the first marker to the closing brace of the fn body
        fn = m.group(2)
        indent = m.group(1)
        # walk back over prologue lines already emitted (after the opening "{" of the body)
        pro = []
        while out and out[-1].strip() != "{":
            pro.insert(0, out.pop())
        region = []
        depth = 0
        while i < len(lines):
            l = lines[i]
            if re.match(r"^    \}\s*$", l):      # end of fn body (4-space indented closing brace)
                break
            region.append(l)
            i += 1
        markers = []      # (key, [hint lines])
        for l in region:
            mm = re.match(r"^\s*//@stmt (\S+) (.*)$", l)
            if mm:
                if mm.group(1) != fn:
                    raise Undecided("template: marker of %s inside %s" % (mm.group(1), fn))
                markers.append([mm.group(2).strip(), []])
            else:
                markers[-1][1].append(l)
        if fn not in slices:
            raise Undecided("template refers to unknown function %s" % fn)
        out.extend(pro)
        used = [False] * len(markers)
        # renamed locals: when the extracted `let` statements and the template's `let` markers correspond one to one by position and only
        # some names differ, a marker is attached to the statement at its position and the old name is kept alive as an alias, so that
        # the hints (which mention the old name) still apply.  Only done when the old name occurs nowhere in the extracted code.
        s_lets = [k for (k, t) in slices[fn] if k.startswith("let ")]
        m_lets = [k for (k, h) in markers if k.startswith("let ")]
        renames = {}
        if s_lets != m_lets:
            import difflib
            body_txt = " ".join(t if isinstance(t, str) else " ".join(t.values()) for (k, t) in slices[fn])
            for tag, i1, i2, j1, j2 in difflib.SequenceMatcher(None, s_lets, m_lets, autojunk=False).get_opcodes():
                if tag == "replace" and i2 - i1 == j2 - j1:          # same number of statements between two matching neighbours: renames
                    for a, b in zip(s_lets[i1:i2], m_lets[j1:j2]):
                        if not re.search(r"\b%s\b" % re.escape(b[4:]), body_txt) and b not in s_lets:
                            renames[a] = b
        for (skey, text) in slices[fn]:
            hit = None
            mkey = renames.get(skey, skey)
            for j, (key, hints) in enumerate(markers):
                if used[j]:
                    continue
                if skey == "struct" and key.startswith("struct"):
                    hit = j
                    break
                if skey != "struct" and (mkey == key or mkey.startswith(key)):
                    hit = j
                    break
            if skey in renames and hit is not None and isinstance(text, str):
                text = text + " let %s = %s;" % (renames[skey][4:], skey[4:])      # alias for the proof hints (renamed local)
            if skey == "struct":
                want = markers[hit][0].split()[1:] if hit is not None else sorted(text)
                missing = [f for f in want if f not in text]
                if missing:
                    raise Undecided("constructor of %s does not initialise %s with an integer expression" % (fn, missing))
                out.append(indent + " ".join("let ctor_%s: usize = %s;" % (f, text[f]) for f in want))
            elif skey == "early-return":
                out.append(indent + "if any_bool() { return %s; }   // <- early return extracted from src/synchro.rs (condition abstracted)" % text)
            else:
                out.append(indent + text + "   // <- extracted from src/synchro.rs")
            if hit is not None:
                used[hit] = True
                out.extend(markers[hit][1])
        LOST_HINTS[fn] = [markers[j][0] for j in range(len(markers)) if not used[j] and any(h.strip() for h in markers[j][1])]
    return "\n".join(out) + "\n"


def run_verus(scratch, text, tag):
    path = os.path.join(scratch.root, "verus_%s.rs" % tag)
    with open(path, "w") as f:
        f.write(text)
    rc, out, secs = run(["verus", path, "--output-json", "--time", "--multiple-errors", "20"], cwd=scratch.root, timeout=600)
    return rc, out, secs, path


def parse_verus(out):
    """-> (json dict or None, list of error dicts{msg, line})"""
    js = None
    i = out.find("{")
    # the JSON object is printed at the end of stdout; errors (rustc style) precede it
    m = re.search(r"\{\s*\"encountered-[\s\S]*\}\s*$|\{\s*\"verification-results\"[\s\S]*\}\s*$|\{[\s\S]*\"verification-results\"[\s\S]*\}\s*$", out)
    if m:
        try:
            js = json.loads(m.group(0))
        except Exception:
            js = None
    errs = []
    for em in re.finditer(r"^error(?:\[[A-Z0-9]+\])?: ([^\n]*)\n\s*--> [^:\n]*:(\d+):(\d+)", out, re.M):
        errs.append({"msg": em.group(1), "line": int(em.group(2))})
    return js, errs


def function_at(text, line):
    """Name of the verus fn (and its //@ob tag) enclosing `line`."""
    lines = text.splitlines()
    name, ob = None, None
    for i in range(min(line, len(lines)) - 1, -1, -1):
        m = re.match(r"\s*(?:pub )?(?:proof |exec )?fn ([A-Za-z0-9_]+)", lines[i])
        if m:
            name = m.group(1)
            for j in range(i, -1, -1):
                mi = re.match(r"\s*impl (\w+)", lines[j])
                if mi:
                    name = mi.group(1) + "::" + name
                    break
                if re.match(r"^\}", lines[j]):
                    break
            for j in range(i - 1, max(i - 6, -1), -1):
                mo = re.match(r"\s*//@ob (.*)$", lines[j])
                if mo:
                    ob = mo.group(1).strip()
                    break
            break
    return name, ob


def stage_for(props):
    def stage(scratch, tier, log):
        return run_stage(scratch, tier, log, props)
    stage.__name__ = "tierc_verus"
    return stage


_cache = {}


def run_stage(scratch, tier, log, prop):
    t0 = time.time()
    src = scratch.read("synchro.rs")
    tmpl = open(os.path.join(VERIF, "verus", "synchro_slices.rs.tmpl")).read()
    # obligations declared in the template: //@ob name=... props=C04,C07
    decl = []
    for m in re.finditer(r"^\s*//@ob (.*)\n\s*(?:pub )?(?:proof |exec )?fn ([A-Za-z0-9_]+)", tmpl, re.M):
        meta = dict(tok.split("=", 1) for tok in m.group(1).split() if "=" in tok)
        decl.append((meta.get("name"), meta.get("props", "").split(","), meta.get("fn", m.group(2)), meta.get("fn", "")))
    mine = [d for d in decl if prop in d[1]]
    try:
        slices = extract_all(src)
        text = instantiate(tmpl, slices)
    except (rp.ParseError, Undecided) as e:
        return [Obligation(n, "extraction", UNDECIDED, detail=str(e), functions=[f]) for (n, p, fn, f) in mine]
    rc, out, secs, path = run_verus(scratch, text, "synchro")
    # proof hints that mention a local the extracted code no longer has are dropped (a hint is never needed for soundness)
    dropped_in = set()
    for _ in range(6):
        bad = set()
        for em in re.finditer(r"^error(?:\[[A-Z0-9]+\])?: (cannot find value|cannot find function|mismatched types|no field)[^\n]*\n\s*--> [^:\n]*:(\d+):", out, re.M):
            ln = int(em.group(2))
            lines_ = text.splitlines()
            if 0 < ln <= len(lines_) and "<- extracted from src/synchro.rs" not in lines_[ln - 1] and "<- early return" not in lines_[ln - 1]:
                bad.add(ln)
        if not bad:
            break
        lines_ = text.splitlines()
        for ln in bad:
            dropped_in.add(function_at(text, ln)[0])
            lines_[ln - 1] = "        // (proof hint dropped: refers to a name the extracted code does not have)"
        text = "\n".join(lines_) + "\n"
        rc, out, secs2, path = run_verus(scratch, text, "synchro")
        secs += secs2
    log.append("$ verus %s\n%s" % (path, out[-3000:]))
    js, errs = parse_verus(out)
    obs = []
    if js is None and rc != 0 and not errs:
        return [Obligation(n, "verus", UNDECIDED, detail="verus did not produce a result: " + out[-800:], functions=[f]) for (n, p, fn, f) in mine]
    hard = [e for e in errs if not re.search(r"postcondition|precondition|assertion failed|overflow|underflow|invariant|decreases|possible division by zero|failed", e["msg"])]
    failed_fns = {}
    for e in errs:
        fnname, ob = function_at(text, e["line"])
        failed_fns.setdefault(fnname, []).append("%s (line %d: %s)" % (e["msg"], e["line"], text.splitlines()[e["line"] - 1].strip()[:120]))
    if "Resource limit (rlimit) exceeded" in out or "rlimit exceeded" in out:
        hard.append({"msg": "rlimit", "line": 0})
    nver = None
    if js and "verification-results" in js:
        nver = js["verification-results"].get("verified")
    per = max(secs / max(1, len(decl)), 0.001)
    for (n, p, fn, f) in mine:
        if hard and fn not in failed_fns:
            obs.append(Obligation(n, "verus-0.2026.09.13/z3", UNDECIDED, per, "complete", [f],
                                  detail="verus reported a non-verification error (type error / resource limit): %s" % hard[0]["msg"], checks=1))
        elif fn in failed_fns:
            st = UNDECIDED if any(re.search(r"rlimit|Resource", x) for x in failed_fns[fn]) or (hard and any(h["msg"] in x for h in hard for x in failed_fns[fn])) else FAILED
            det = "; ".join(failed_fns[fn])[:900]
            if st == FAILED and (fn in dropped_in or LOST_HINTS.get(fn)):
                # the proof lost hints (renamed / restructured code): a failed obligation then says nothing about the code - undecided, never an alarm
                st = UNDECIDED
                det = "proof hints of the template no longer match the extracted code (%s), so the failed obligation is not a verdict: %s" % (
                    ", ".join(LOST_HINTS.get(fn) or ["hint lines dropped"])[:200], det[:600])
            obs.append(Obligation(n, "verus-0.2026.09.13/z3", st, per, "complete", [f], detail=det, checks=1, output=out[-4000:]))
        else:
            obs.append(Obligation(n, "verus-0.2026.09.13/z3", DISCHARGED, per, "complete", [f], checks=1,
                                  detail="verified (%s functions verified in file)" % nver))
    # concrete-configuration refutation (vlib/tierc_concrete.py) for functions Verus rejected or could not decide: a counterexample is a
    # (configuration, call index) of the *real* statements, replayed natively through the public API.  An undecided obligation is turned
    # into a violation only when the native replay reproduces the failure on the real code.
    todo = [o for o in obs if o.status in (FAILED, UNDECIDED) and o.functions and o.functions[0].split("::")[0] in FUNCS]
    if todo:
        from . import tierc_concrete
        cache = {}
        for o in todo:
            T = o.functions[0].split("::")[0]
            if T not in cache:
                try:
                    cex = tierc_concrete.refute(src, T)
                    rep = tierc_concrete.replay(scratch, cex) if cex else (False, "")
                except Exception as ex:      # the refuter is an aid: its own trouble is never an alarm
                    cex, rep = None, (False, "refuter error: %r" % (ex,))
                cache[T] = (cex, rep)
            cex, (reproduced, text_) = cache[T]
            if cex is None:
                continue
            if o.status == UNDECIDED and not reproduced:
                o.detail = (o.detail + " | concrete refuter: %s (not reproduced natively: %s)" % (cex["what"], text_))[:1200]
                continue
            o.status = FAILED
            o.counterexample = cex
            o.replayed = reproduced
            o.replay_text = text_
            o.detail = ("%s | failing configuration: %s::new(%d, %d, %d, %s1) call #%d: %s" % (
                o.detail[:500], T, cex["rate_in"], cex["rate_out"], cex["chunk"], "" if T == "FftFixedInOut" else "%d, " % cex["sub_chunks"], cex["call"], cex["what"]))[:1200]
    if prop in ("C03", "C04", "C07"):      # the properties whose FFT obligations use the two idioms' contracts
        obs += f32div_lemma()
    return obs


def f32div_lemma():
    """L-f32div, derived (not trusted): the contracts of ceil_div_f32 / floor_div_f32 in the Verus file follow from the float model
    Tier B uses everywhere - round-to-nearest with relative error <= 2^-24 for normal results, exactly representable results are
    returned exactly, usize values < 2^24 convert exactly - for all a < 2^24, 0 < b < 2^24 (so a/b is 0 or in [2^-24, 2^24): no
    underflow, overflow or subnormal result).  Nonlinear integer/real arithmetic in Z3; a bit-precise CBMC run for operands < 2^8
    (quick) / 2^12 (thorough) cross-checks the model (kani/verif_lib__f32div.rs)."""
    import z3
    a, b, k, r = z3.Ints("a b k r")
    qf = z3.Real("qf")
    ra, rb = z3.ToReal(a), z3.ToReal(b)
    u = z3.Q(1, 2 ** 24)
    model = [a >= 0, a < 2 ** 24, b > 0, b < 2 ** 24, k == a / b, r == a % b, a == k * b + r, r >= 0, r < b, k >= 0,
             qf * rb - ra <= ra * u, ra - qf * rb <= ra * u,            # |fl(a/b) - a/b| <= 2^-24 * a/b, multiplied by b > 0
             z3.Implies(r == 0, qf == z3.ToReal(k))]                    # an integer quotient < 2^24 is representable: exact
    out = []
    fnames = ["synchro.rs: (x as f32 / y as f32).floor()/ceil() as usize"]
    for name, goal in (("floor", z3.ToInt(qf) == k), ("ceil", -z3.ToInt(-qf) == z3.If(r == 0, k, k + 1))):
        t0 = time.time()
        sv = z3.Solver()
        sv.set("timeout", 60000)
        sv.add(model)
        guard = sv.check()
        sv.add(z3.Not(goal))
        res = sv.check()
        st = DISCHARGED if (res == z3.unsat and guard == z3.sat) else (FAILED if res == z3.sat else UNDECIDED)
        out.append(Obligation("L-f32div.%s_div_f32.contract_from_rounding_model" % name, "z3", st, time.time() - t0, "complete-real", fnames, checks=2,
                              detail="" if st == DISCHARGED else "guard=%s goal=%s %s" % (guard, res, sv.model() if res == z3.sat else "")))
    # the exactness premise is needed (sanity: without it the ceil contract must be refutable, else the model is vacuous)
    sv = z3.Solver()
    sv.add(model[:-1])
    sv.add(z3.Not(-z3.ToInt(-qf) == z3.If(r == 0, k, k + 1)))
    t0 = time.time()
    res = sv.check()
    out.append(Obligation("L-f32div.model_not_vacuous(exactness premise is used)", "z3", DISCHARGED if res == z3.sat else UNDECIDED, time.time() - t0,
                          "complete-real", fnames, checks=1, detail="" if res == z3.sat else "expected a counter-model without the exactness premise"))
    return out
