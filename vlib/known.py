"""Known findings: replayed natively on every run; printed as KNOWN-FINDING lines; never a VIOLATION."""
import os

from . import native
from .common import VERIF, load_known_findings


def replay_for(prop):
    def run(scratch, tier, log):
        lines = []
        kf = load_known_findings()
        for f in kf.get("findings", []):
            if prop not in f.get("properties", []):
                continue
            src = open(os.path.join(VERIF, f["program"])).read()
            rc, out = native.run_program(scratch, f["id"], src)
            tail = " | ".join(l for l in out.strip().splitlines()[-3:] if l.strip())[:300]
            if rc != 0 and "error: could not compile" not in out and "error[E" not in out:
                lines.append("KNOWN-FINDING: property=%s %s: %s [replayed on this tree: %s]" % (prop, f["id"], f["what"], tail))
            elif rc == 0:
                lines.append("NOTE: known finding %s (property %s) no longer reproduces on this tree: %s" % (f["id"], prop, tail))
            else:
                lines.append("NOTE: known finding %s (property %s): replay program did not build: %s" % (f["id"], prop, out[-300:]))
        return lines
    return run
