"""Concrete-configuration refutation for Tier C (FFT adapters).

When Verus cannot decide a contract function (hints lost) or rejects it, the *real* statements of `new`, the getters and
`process_into_buffer` (parsed from the snapshot, the same text the slices come from) are executed on small concrete configurations
with the symbolic executor in exact mode (integers mathematical with usize side conditions, the f32 ceil/floor idioms exact - lemma
L-f32div).  Data-movement statements are not executed; their mechanically generated range obligations (vlib/tierc.py) are evaluated
instead.  Property-level oracles, not wf: C03 no usize underflow/overflow and every range obligation holds for caller slices of the
validated minimum length and longer ones; C04 next <= max, the call reports exactly (input_frames_next(), output_frames_next());
C07 0 <= in*rate_out - out*rate_in < one FFT block.  A failing (configuration, call index) is a counterexample that is then
replayed natively through the public API (native.run_program).  Bounded: rates <= 8 (plus 44100/48000), chunk <= 12, 14 calls."""
import re

import z3

from . import native, rsparse as rp, smt, tierc
from .common import Undecided

CONFIGS = [(ri, ro, c, s) for (ri, ro) in ((1, 1), (2, 3), (3, 2), (7, 5), (5, 7), (1, 4), (4, 1), (2, 2), (3, 8), (8, 3))
           for c in (1, 2, 3, 4, 5, 6, 8, 9, 12) for s in (1, 2, 3) if s <= c] + [(44100, 48000, 1024, 2), (48000, 44100, 1000, 1), (48000, 96000, 1024, 1)]
CALLS = 14
STATS = {}


def _int(t):
    v = z3.simplify(t)
    if z3.is_int_value(v):
        return v.as_long()
    if z3.is_rational_value(v) and v.denominator_as_long() == 1:
        return v.numerator_as_long()
    raise Undecided("not a concrete integer: %s" % v)


class Machine:
    def __init__(self, src, T):
        self.T = T
        self.src = src
        self.fields = {}
        self.problem = None
        impl = ["Resampler", "for " + T + "<"]
        self.new = rp.find_fn(src, "new", ["impl<T> " + T + "<"])
        self.proc = rp.find_fn(src, "process_into_buffer", impl)
        self.getters = {g: rp.find_fn(src, g, impl) for g in ("input_frames_next", "input_frames_max", "output_frames_next", "output_frames_max")}
        tierc.extract_all(src)
        self.unit = tierc.UNIT[T]

    def env(self, extra=None):
        e = smt.Env("exact")
        e.helpers["integer::gcd"] = e.helpers["num_integer::gcd"] = e.helpers["gcd"] = self._gcd
        for g in self.getters:
            e.methods[g] = (lambda gg: (lambda env, recv, args, node: smt.Val(z3.IntVal(self.getter(gg)), "usize")))(g)
        for k, v in self.fields.items():
            e.vars["self." + k] = smt.Val(z3.IntVal(v), "usize")
        for k, v in (extra or {}).items():
            e.vars[k] = smt.Val(z3.IntVal(v), "usize")
        return e

    @staticmethod
    def _gcd(env, args, node):
        import math
        a, b = (_int(env.ev(x).t) for x in args)
        return smt.Val(z3.IntVal(math.gcd(a, b)), "usize")

    def _check_side(self, e, start, where):
        for (label, cond, path, ln) in e.side[start:]:
            c_ = z3.And(cond) if isinstance(cond, list) else cond
            v = z3.simplify(z3.Implies(z3.And(list(path)), c_) if path else c_)
            if z3.is_false(v) and self.problem is None:
                self.problem = "C03 %s: %s (line %s)" % (where, label, ln)

    def run_block(self, e, stmts, tail, where, ranges=None):
        """execute the integer statements of a block concretely; returns the value of `tail` (or of an early `return Ok(..)`)"""
        for st in stmts:
            mark = len(e.side)
            if st[0] == "let":
                try:
                    e.exec_stmt(st)
                    for n in st[1][2]:
                        if n in e.vars and e.vars[n].t is not None and e.vars[n].ty in ("usize", "isize"):
                            e.vars[n] = smt.Val(z3.IntVal(_int(e.vars[n].t)), e.vars[n].ty)
                except (Undecided, KeyError, AttributeError, TypeError, z3.Z3Exception):
                    for n in st[1][2]:
                        e.vars[n] = smt.Val(None, "opaque")
                self._check_side(e, mark, where)
                continue
            x = rp.strip_paren(st[1]) if st[0] == "expr" else None
            if x is None:
                continue
            if x[0] == "assign" and rp.show(x[2]).startswith("self."):
                try:
                    e.exec_stmt(st)
                    self._check_side(e, mark, where)
                except (Undecided, KeyError, AttributeError, TypeError):
                    pass
                continue
            if x[0] == "if" and "let" not in rp.show(x[1])[:4]:
                try:
                    c = z3.simplify(e.ev(x[1]).t)
                except (Undecided, KeyError, AttributeError, TypeError):
                    c = None
                if c is not None and (z3.is_true(c) or z3.is_false(c)):
                    br = x[2] if z3.is_true(c) else x[3]
                    if br is not None and br[0] == "block":
                        self.run_block(e, br[1], None, where, ranges)
                    continue
            # dropped statement: evaluate its range obligations
            if ranges is not None:
                known = {k for k in e.vars if "." not in k and e.vars[k].t is not None} | {"win_len", "wout_len"}
                for (cond, srctxt) in tierc.range_obligations(st, known, {}, self.unit):
                    py = re.sub(r"\bself\.([A-Za-z_0-9]+)", r"S_\1", cond).replace("&&", " and ").replace(" as int", "").replace("/", "//")
                    loc = {"S_" + k[5:]: _int(v.t) for k, v in e.vars.items() if k.startswith("self.") and v.t is not None}
                    loc.update({k: _int(v.t) for k, v in e.vars.items() if "." not in k and v.t is not None and v.ty in ("usize", "isize")})
                    loc.update(ranges)
                    try:
                        ok = eval(py, {}, loc)
                    except Exception:
                        continue
                    if not ok and self.problem is None:
                        self.problem = "C03 %s: range obligation of `%s` fails: %s with %s" % (where, srctxt, cond, {k: loc[k] for k in sorted(loc) if k in py})
        if tail is not None:
            return e.ev(tail)
        return None

    def construct(self, ri, ro, chunk, sub):
        sig, body, _, _ = self.new
        params = [p.strip().split(":")[0].strip() for p in re.search(r"\((.*)\)", sig, re.S).group(1).split(",") if ":" in p]
        vals = dict(zip(params, (ri, ro, chunk, sub, 1))) if len(params) == 5 else dict(zip(params, (ri, ro, chunk, 1)))
        e = self.env(vals)
        self.fields = {}
        self.run_block(e, body[1], None, "%s::new" % self.T)
        lit = [n for n in rp.walk(body) if n[0] == "struct"][-1]
        for f, v in lit[2]:
            try:
                val = e.ev(v)
                if val.t is not None and val.ty in ("usize", "isize", "intlit"):
                    self.fields[f] = _int(val.t)
            except (Undecided, KeyError, AttributeError, TypeError):
                pass
        return vals

    def getter(self, g):
        sig, body, _, _ = self.getters[g]
        e = self.env()
        return _int(self.run_block(e, body[1], body[2], "%s::%s" % (self.T, g)).t)

    def process(self, extra):
        sig, body, _, _ = self.proc
        e = self.env()
        # the two sizes validate_buffers checks against
        vb = [n for n in rp.walk(body) if n[0] == "call" and rp.show(n[1]) == "validate_buffers" and len(n[2]) == 6]
        ranges = {}
        pre, post, seen = [], [], False
        for st in body[1]:
            (post if seen else pre).append(st)
            if vb and any(n is vb[0] for n in rp.walk(st)):
                seen = True
        self.run_block(e, pre, None, "%s::process_into_buffer" % self.T)
        if vb:
            ranges = {"win_len": _int(e.ev(vb[0][2][4]).t) + extra, "wout_len": _int(e.ev(vb[0][2][5]).t) + extra}
        tail = body[2]
        res = self.run_block(e, post, None, "%s::process_into_buffer" % self.T, ranges)
        t = rp.strip_paren(tail)
        tup = rp.strip_paren(t[2][0]) if t[0] == "call" and rp.show(t[1]) == "Ok" else None
        a, b = (_int(e.ev(x).t) for x in tup[1])
        for k in list(self.fields):
            v = e.vars.get("self." + k)
            if v is not None and v.t is not None:
                self.fields[k] = _int(v.t)
        return a, b


def refute(src, T):
    """-> None or a counterexample dict {type, rate_in, rate_out, chunk, sub_chunks, call, extra, what}"""
    try:
        m = Machine(src, T)
    except (rp.ParseError, Undecided, IndexError, KeyError):
        return None
    STATS["done"] = STATS["skipped"] = 0
    STATS["last_error"] = ""
    for (ri, ro, chunk, sub) in CONFIGS:
        for extra in (0, 3):
            try:
                m.problem = None
                m.construct(ri, ro, chunk, sub)
                fi, fo = m.fields.get("fft_size_in"), m.fields.get("fft_size_out", m.fields.get("chunk_size_out"))
                tin = tout = 0
                for k in range(CALLS):
                    ni, mi, no, mo = m.getter("input_frames_next"), m.getter("input_frames_max"), m.getter("output_frames_next"), m.getter("output_frames_max")
                    what = None
                    if ni > mi:
                        what = "C04 input_frames_next() %d > input_frames_max() %d" % (ni, mi)
                    elif no > mo:
                        what = "C04 output_frames_next() %d > output_frames_max() %d" % (no, mo)
                    if what is None:
                        a, b = m.process(extra)
                        what = m.problem
                        tin, tout = tin + a, tout + b
                        lag = tin * ro - tout * ri
                        if what is None and (a, b) != (ni, no):
                            what = "C04 the call reports (%d, %d) but advertised (input_frames_next(), output_frames_next()) = (%d, %d)" % (a, b, ni, no)
                        if what is None and fi and not (0 <= lag < fi * ro):
                            what = "C07 in*rate_out - out*rate_in = %d after this call, outside [0, one FFT block = %d)" % (lag, fi * ro)
                    if what:
                        STATS["done"] += 1
                        return {"type": T, "rate_in": ri, "rate_out": ro, "chunk": chunk, "sub_chunks": sub, "call": k, "extra_frames_in_caller_slices": extra, "what": what}
                STATS["done"] += 1
            except (Undecided, KeyError, AttributeError, TypeError, IndexError, ZeroDivisionError, z3.Z3Exception) as ex:
                STATS["skipped"] += 1
                STATS["last_error"] = repr(ex)[:200]
                continue
    return None


PROGRAM = r'''
use rubato::{@T@, Resampler};
fn main() {
    let (ri, ro, chunk, sub, extra, calls): (usize, usize, usize, usize, usize, usize) = (@ri@, @ro@, @chunk@, @sub@, @extra@, @calls@);
    let res = std::panic::catch_unwind(|| {
        let mut r = @ctor@;
        let (mut tin, mut tout) = (0i128, 0i128);
        for k in 0..calls {
            let (ni, mi, no, mo) = (r.input_frames_next(), r.input_frames_max(), r.output_frames_next(), r.output_frames_max());
            if ni > mi { println!("call {}: input_frames_next() {} > input_frames_max() {}", k, ni, mi); return 1; }
            if no > mo { println!("call {}: output_frames_next() {} > output_frames_max() {}", k, no, mo); return 1; }
            let win = vec![(0..ni + extra).map(|j| ((j * 7 + k) % 11) as f64 * 0.1 - 0.5).collect::<Vec<f64>>(); 1];
            let mut wout = vec![vec![0.0f64; no + extra]; 1];
            match r.process_into_buffer(&win, &mut wout, None) {
                Ok((a, b)) => {
                    if (a, b) != (ni, no) { println!("call {}: reports ({}, {}) but advertised ({}, {})", k, a, b, ni, no); return 1; }
                    tin += a as i128; tout += b as i128;
                }
                Err(e) => { println!("call {}: valid call returned Err: {}", k, e); return 1; }
            }
            let lag = tin * ro as i128 - tout * ri as i128;
            if lag < 0 { println!("call {}: more output than input accounts for (lag {})", k, lag); return 1; }
        }
        0
    });
    match res { Ok(0) => println!("no property-level failure in {} calls", calls), Ok(_) => std::process::exit(1), Err(_) => { println!("PANIC inside the history"); std::process::exit(1) } }
}
'''


def replay(scratch, cex):
    T = cex["type"]
    ctor = ("%s::<f64>::new(ri, ro, chunk, 1).unwrap()" if T == "FftFixedInOut" else "%s::<f64>::new(ri, ro, chunk, sub, 1).unwrap()") % T
    prog = PROGRAM
    for k_, v_ in (("T", T), ("ri", cex["rate_in"]), ("ro", cex["rate_out"]), ("chunk", cex["chunk"]), ("sub", cex["sub_chunks"]),
                   ("extra", cex["extra_frames_in_caller_slices"]), ("calls", cex["call"] + 3), ("ctor", ctor)):
        prog = prog.replace("@%s@" % k_, str(v_))
    rc, out = native.run_program(scratch, "tierc", prog)
    if "error: could not compile" in out or "error[E" in out:
        return False, "replay program did not build: " + out[-500:]
    tail = " | ".join(l.strip() for l in out.strip().splitlines()[-4:] if l.strip() and "warning" not in l)[:600]
    if rc != 0:
        return True, "reproduced on the real code through the public API (debug build): " + tail
    return False, "not reproduced natively: " + tail
