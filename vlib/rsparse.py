"""A small recursive-descent / Pratt parser for the fragment of Rust that occurs in rubato's
function bodies.  It is used to *extract* the real statements of /repo's current source text on
every run (Tier B VC generation, syntactic frame / information-flow obligations, expression
identity).  Anything it cannot parse raises ParseError, which the checks turn into exit 2
(undecided) - never into a violation.

AST: nested tuples, first element is the node kind (see the constructors below).
"""
import re


class ParseError(Exception):
    pass


TOKEN_RE = re.compile(r"""
    (?P<ws>\s+)
  | (?P<lcomment>//[^\n]*)
  | (?P<bcomment>/\*.*?\*/)
  | (?P<str>b?"(?:\\.|[^"\\])*")
  | (?P<char>b?'(?:\\.|[^'\\])')
  | (?P<lifetime>'[A-Za-z_][A-Za-z0-9_]*)
  | (?P<num>(?:0x[0-9a-fA-F_]+|0b[01_]+|[0-9][0-9_]*(?:\.(?!\.)(?![A-Za-z_])[0-9_]*)?(?:[eE][+-]?[0-9_]+)?)(?:_?(?:f32|f64|usize|isize|u8|u16|u32|u64|u128|i8|i16|i32|i64|i128))?)
  | (?P<ident>r\#[A-Za-z_][A-Za-z0-9_]*|[A-Za-z_][A-Za-z0-9_]*)
  | (?P<op><<=|>>=|\.\.=|\.\.\.|::|->|=>|==|!=|<=|>=|&&|\|\||\+=|-=|\*=|/=|%=|\^=|\|=|&=|<<|>>|\.\.|[-+*/%^!&|=<>@.,;:\#$?~(){}\[\]])
""", re.X | re.S)


def tokenize(src):
    toks = []
    pos = 0
    line = 1
    n = len(src)
    while pos < n:
        m = TOKEN_RE.match(src, pos)
        if not m:
            raise ParseError("cannot tokenize at line %d: %r" % (line, src[pos:pos + 30]))
        kind = m.lastgroup
        text = m.group()
        if kind not in ("ws", "lcomment", "bcomment"):
            toks.append((kind, text, line))
        line += text.count("\n")
        pos = m.end()
    toks.append(("eof", "", line))
    return toks


BINOPS = [
    ("||", 3), ("&&", 4),
    ("==", 5), ("!=", 5), ("<", 5), (">", 5), ("<=", 5), (">=", 5),
    ("|", 6), ("^", 7), ("&", 8), ("<<", 9), (">>", 9),
    ("+", 10), ("-", 10), ("*", 11), ("/", 11), ("%", 11),
]
BINPREC = dict(BINOPS)
ASSIGN_OPS = {"=", "+=", "-=", "*=", "/=", "%=", "^=", "|=", "&=", "<<=", ">>="}
P_ASSIGN, P_RANGE, P_AS, P_UNARY = 1, 2, 12, 13


class Parser:
    def __init__(self, toks):
        self.t = toks
        self.i = 0

    # -- token helpers
    def peek(self, k=0):
        return self.t[min(self.i + k, len(self.t) - 1)]

    def at(self, text, k=0):
        tk = self.peek(k)
        return tk[1] == text and tk[0] in ("op", "ident")

    def eat(self, text):
        if self.at(text):
            self.i += 1
            return True
        return False

    def expect(self, text):
        if not self.eat(text):
            tk = self.peek()
            raise ParseError("line %d: expected %r, found %r" % (tk[2], text, tk[1]))

    def ident(self):
        tk = self.peek()
        if tk[0] != "ident":
            raise ParseError("line %d: expected identifier, found %r" % (tk[2], tk[1]))
        self.i += 1
        return tk[1]

    def line(self):
        return self.peek()[2]

    # -- skipping helpers
    def skip_balanced(self, open_, close):
        depth = 0
        start = self.i
        while True:
            tk = self.peek()
            if tk[0] == "eof":
                raise ParseError("unbalanced %s" % open_)
            if tk[1] == open_ and tk[0] == "op":
                depth += 1
            elif tk[1] == close and tk[0] == "op":
                depth -= 1
                if depth == 0:
                    self.i += 1
                    return self.t[start:self.i]
            self.i += 1

    def skip_generics(self):
        """at '<': skip a balanced generic argument list (handles >>)."""
        depth = 0
        start = self.i
        while True:
            tk = self.peek()
            if tk[0] == "eof":
                raise ParseError("unbalanced <")
            if tk[0] == "op":
                if tk[1] == "<":
                    depth += 1
                elif tk[1] == ">":
                    depth -= 1
                elif tk[1] == ">>":
                    depth -= 2
                elif tk[1] in ("(", "["):
                    self.skip_balanced(tk[1], ")" if tk[1] == "(" else "]")
                    continue
            self.i += 1
            if depth <= 0:
                return self.t[start:self.i]

    def type_text(self):
        """Parse (skip) a type, return its text."""
        start = self.i
        while self.at("&") or self.at("*") or self.at("&&"):
            self.i += 1
            if self.peek()[0] == "lifetime":
                self.i += 1
            if self.at("mut") or self.at("const"):
                self.i += 1
        dyn = False
        if self.at("dyn") or self.at("impl"):
            self.i += 1
            dyn = True
        if self.at("("):
            self.skip_balanced("(", ")")
        elif self.at("["):
            self.skip_balanced("[", "]")
        else:
            if self.at("<"):
                self.skip_generics()
                if self.at("::"):
                    self.i += 1
            self.ident()
            while True:
                if self.at("::"):
                    self.i += 1
                    if self.at("<"):
                        self.skip_generics()
                    else:
                        self.ident()
                elif self.at("<"):
                    self.skip_generics()
                else:
                    break
            while dyn and self.at("+"):   # dyn A + Send
                self.i += 1
                self.type_text()
        return " ".join(t[1] for t in self.t[start:self.i])

    # -- patterns (kept as text + bound names)
    def pattern(self, stops):
        start = self.i
        depth = 0
        names = []
        while True:
            tk = self.peek()
            if tk[0] == "eof":
                raise ParseError("pattern runs to eof")
            if depth == 0 and tk[0] in ("op", "ident") and tk[1] in stops:
                break
            if tk[0] == "op" and tk[1] in "([{":
                depth += 1
            elif tk[0] == "op" and tk[1] in ")]}":
                depth -= 1
            elif tk[0] == "ident" and tk[1] not in ("mut", "ref", "_", "Some", "None", "Ok", "Err"):
                nxt = self.peek(1)
                if not (nxt[1] in ("::", "(", "{") and nxt[0] == "op") and tk[1][0].islower():
                    names.append(tk[1])
            self.i += 1
        text = " ".join(t[1] for t in self.t[start:self.i])
        return ("pat", text, names)

    # -- blocks and statements
    def block(self):
        self.expect("{")
        stmts = []
        tail = None
        while not self.at("}"):
            if self.peek()[0] == "eof":
                raise ParseError("unterminated block")
            st = self.statement()
            if st is None:
                continue
            stmts.append(st)
        self.expect("}")
        if stmts and stmts[-1][0] == "expr" and not stmts[-1][2]:
            tail = stmts.pop()[1]
        return ("block", stmts, tail)

    def skip_attrs(self):
        while self.at("#"):
            self.i += 1
            self.eat("!")
            self.skip_balanced("[", "]")

    def statement(self):
        self.skip_attrs()
        ln = self.line()
        if self.eat(";"):
            return None
        if self.at("let"):
            self.i += 1
            pat = self.pattern((":", "=", ";"))
            ty = None
            if self.eat(":"):
                ty = self.type_text()
            init = None
            if self.eat("="):
                init = self.expr()
            els = None
            if self.at("else"):
                self.i += 1
                els = self.block()
            self.expect(";")
            return ("let", pat, ty, init, ln)
        if self.at("use") or self.at("fn") or self.at("struct") or self.at("const") or self.at("static") \
                or self.at("impl") or self.at("enum") or self.at("type") or self.at("trait") or self.at("mod"):
            # nested item: skip to ';' or balanced '{...}'
            start = self.i
            while not (self.at(";") or self.at("{")):
                if self.peek()[0] == "eof":
                    raise ParseError("item runs to eof")
                if self.at("("):
                    self.skip_balanced("(", ")")
                else:
                    self.i += 1
            if self.at("{"):
                self.skip_balanced("{", "}")
            else:
                self.i += 1
            return ("item", " ".join(t[1] for t in self.t[start:self.i]), ln)
        e = self.expr(stmt_pos=True)
        if self.eat(";"):
            return ("expr", e, True, ln)
        if e[0] in ("if", "iflet", "match", "while", "whilelet", "for", "loop", "block", "unsafe") or \
                (e[0] == "macro" and e[3] == "{"):
            return ("expr", e, self.at("}") is False, ln) if False else ("expr", e, not self.at("}"), ln)
        if self.at("}"):
            return ("expr", e, False, ln)
        tk = self.peek()
        raise ParseError("line %d: expected ';' or '}' after expression, found %r" % (tk[2], tk[1]))

    # -- expressions
    def expr(self, minp=P_ASSIGN, no_struct=False, stmt_pos=False):
        ln = self.line()
        # prefix range
        if self.at("..") or self.at("..="):
            incl = self.peek()[1] == "..="
            self.i += 1
            hi = None
            if self.starts_expr():
                hi = self.expr(P_RANGE + 1, no_struct)
            left = ("range", None, hi, incl)
        elif stmt_pos and self.peek()[0] == "ident" and self.peek()[1] in ("if", "match", "while", "for", "loop", "unsafe"):
            left = self.primary(no_struct)      # block-like expression statement: no call/index postfix
        elif stmt_pos and self.at("{"):
            left = self.primary(no_struct)
        else:
            left = self.unary(no_struct)
        if stmt_pos and left[0] in ("if", "iflet", "match", "while", "whilelet", "for", "loop", "block", "unsafe"):
            # block-like expression statements do not continue as binary expressions (except method chains: rare)
            if not self.at("."):
                return left
            left = self.postfix(left, no_struct)
        while True:
            tk = self.peek()
            if tk[0] != "op" and not (tk[0] == "ident" and tk[1] == "as"):
                break
            op = tk[1]
            if op == "as":
                if P_AS < minp:
                    break
                self.i += 1
                ty = self.type_text()
                left = ("cast", left, ty)
                continue
            if op in BINPREC:
                p = BINPREC[op]
                if p < minp:
                    break
                self.i += 1
                right = self.expr(p + 1, no_struct)
                left = ("binary", op, left, right)
                continue
            if op in ("..", "..="):
                if P_RANGE < minp:
                    break
                self.i += 1
                hi = None
                if self.starts_expr() and not (no_struct and self.at("{")):
                    hi = self.expr(P_RANGE + 1, no_struct)
                left = ("range", left, hi, op == "..=")
                continue
            if op in ASSIGN_OPS:
                if P_ASSIGN < minp:
                    break
                self.i += 1
                right = self.expr(P_ASSIGN, no_struct)
                left = ("assign", op, left, right, ln)
                continue
            break
        return left

    def starts_expr(self):
        tk = self.peek()
        if tk[0] in ("num", "ident", "str", "char"):
            return tk[1] not in ("as",)
        return tk[0] == "op" and tk[1] in ("(", "[", "-", "!", "*", "&", "|", "||", "{", "<")

    def unary(self, no_struct):
        tk = self.peek()
        if tk[0] == "op" and tk[1] in ("-", "!", "*"):
            self.i += 1
            return ("unary", tk[1], self.unary(no_struct))
        if tk[0] == "op" and tk[1] in ("&", "&&"):
            self.i += 1
            mut = self.eat("mut")
            inner = self.unary(no_struct)
            node = ("unary", "&mut" if mut else "&", inner)
            if tk[1] == "&&":
                node = ("unary", "&", node)
            return node
        return self.postfix(self.primary(no_struct), no_struct)

    def args(self, close=")"):
        out = []
        while not self.at(close):
            out.append(self.expr())
            if not self.eat(","):
                break
        self.expect(close)
        return out

    def postfix(self, e, no_struct):
        while True:
            if self.at("?"):
                self.i += 1
                e = ("try", e)
            elif self.at("("):
                self.i += 1
                e = ("call", e, self.args(")"))
            elif self.at("["):
                self.i += 1
                idx = self.expr()
                self.expect("]")
                e = ("index", e, idx)
            elif self.at("."):
                nxt = self.peek(1)
                if nxt[0] == "num":
                    self.i += 2
                    # tuple field, possibly "0.1" lexed as one float
                    for part in nxt[1].split("."):
                        e = ("field", e, part)
                    continue
                if nxt[0] != "ident":
                    break
                self.i += 2
                name = nxt[1]
                if name == "await":
                    raise ParseError("await unsupported")
                if self.at("::"):
                    self.i += 1
                    self.skip_generics()
                if self.at("("):
                    self.i += 1
                    e = ("mcall", e, name, self.args(")"))
                else:
                    e = ("field", e, name)
            else:
                break
        return e

    def path(self):
        segs = []
        if self.at("<"):            # qualified path <T as Trait>::x
            toks = self.skip_generics()
            segs.append(" ".join(t[1] for t in toks))
            self.expect("::")
        elif self.at("::"):
            self.i += 1
        segs.append(self.ident())
        while self.at("::"):
            self.i += 1
            if self.at("<"):
                self.skip_generics()
            else:
                segs.append(self.ident())
        return segs

    def primary(self, no_struct):
        tk = self.peek()
        kind, text, ln = tk
        if kind == "num":
            self.i += 1
            m = re.match(r"^(.*?)(?:_?(f32|f64|usize|isize|u8|u16|u32|u64|u128|i8|i16|i32|i64|i128))?$", text)
            return ("num", m.group(1).replace("_", ""), m.group(2))
        if kind in ("str", "char"):
            self.i += 1
            return ("lit", text)
        if kind == "lifetime":          # labelled loop
            self.i += 1
            self.expect(":")
            return self.primary(no_struct)
        if kind == "op":
            if text == "(":
                self.i += 1
                if self.eat(")"):
                    return ("tuple", [])
                first = self.expr()
                if self.eat(")"):
                    return ("paren", first)
                items = [first]
                while self.eat(","):
                    if self.at(")"):
                        break
                    items.append(self.expr())
                self.expect(")")
                return ("tuple", items)
            if text == "[":
                self.i += 1
                if self.eat("]"):
                    return ("array", [])
                first = self.expr()
                if self.eat(";"):
                    n = self.expr()
                    self.expect("]")
                    return ("repeat", first, n)
                items = [first]
                while self.eat(","):
                    if self.at("]"):
                        break
                    items.append(self.expr())
                self.expect("]")
                return ("array", items)
            if text == "{":
                return self.block()
            if text in ("|", "||"):
                return self.closure()
            if text == "<":
                return ("path", self.path())
            raise ParseError("line %d: unexpected %r" % (ln, text))
        if kind == "ident":
            if text == "if":
                return self.if_expr()
            if text == "match":
                self.i += 1
                scrut = self.expr(no_struct=True)
                self.expect("{")
                arms = []
                while not self.at("}"):
                    self.skip_attrs()
                    pat = self.pattern(("=>", "if"))
                    guard = None
                    if self.eat("if"):
                        guard = self.expr()
                    self.expect("=>")
                    body = self.expr()
                    arms.append((pat, guard, body))
                    if not self.eat(","):
                        if not self.at("}") and body[0] not in ("block", "if", "match", "unsafe", "for", "while", "loop"):
                            raise ParseError("line %d: expected ',' in match" % self.line())
                self.expect("}")
                return ("match", scrut, arms, ln)
            if text == "while":
                self.i += 1
                if self.at("let"):
                    self.i += 1
                    pat = self.pattern(("=",))
                    self.expect("=")
                    e = self.expr(no_struct=True)
                    return ("whilelet", pat, e, self.block(), ln)
                cond = self.expr(no_struct=True)
                return ("while", cond, self.block(), ln)
            if text == "for":
                self.i += 1
                pat = self.pattern(("in",))
                self.expect("in")
                it = self.expr(no_struct=True)
                return ("for", pat, it, self.block(), ln)
            if text == "loop":
                self.i += 1
                return ("loop", self.block(), ln)
            if text == "unsafe":
                self.i += 1
                return ("unsafe", self.block())
            if text == "move":
                self.i += 1
                return self.closure()
            if text == "return":
                self.i += 1
                val = None
                if self.starts_expr():
                    val = self.expr()
                return ("return", val, ln)
            if text == "break":
                self.i += 1
                if self.peek()[0] == "lifetime":
                    self.i += 1
                val = None
                if self.starts_expr() and not self.at("{"):
                    val = self.expr()
                return ("break", val)
            if text == "continue":
                self.i += 1
                if self.peek()[0] == "lifetime":
                    self.i += 1
                return ("continue",)
            if text in ("true", "false"):
                self.i += 1
                return ("lit", text)
            segs = self.path()
            if self.at("!") and not self.at("=", 1) and self.peek(1)[1] in ("(", "[", "{"):
                self.i += 1
                opener = self.peek()[1]
                closer = {"(": ")", "[": "]", "{": "}"}[opener]
                start = self.i
                toks = self.skip_balanced(opener, closer)
                inner = toks[1:-1]
                parsed = None
                try:
                    parsed = parse_macro_args(inner)
                except ParseError:
                    parsed = None
                return ("macro", "::".join(segs), parsed, opener, " ".join(t[1] for t in inner), ln)
            if self.at("{") and not no_struct and (segs[-1][0].isupper() or segs[-1] == "Self"):
                self.i += 1
                fields = []
                base = None
                while not self.at("}"):
                    if self.eat(".."):
                        base = self.expr()
                        break
                    name = self.peek()
                    if name[0] == "num":
                        self.i += 1
                        fname = name[1]
                    else:
                        fname = self.ident()
                    if self.eat(":"):
                        val = self.expr()
                    else:
                        val = ("path", [fname])
                    fields.append((fname, val))
                    if not self.eat(","):
                        break
                self.expect("}")
                return ("struct", segs, fields, base)
            return ("path", segs)
        raise ParseError("line %d: unexpected token %r" % (ln, text))

    def if_expr(self):
        ln = self.line()
        self.expect("if")
        if self.at("let"):
            self.i += 1
            pat = self.pattern(("=",))
            self.expect("=")
            e = self.expr(no_struct=True)
            then = self.block()
            els = None
            if self.eat("else"):
                els = self.if_expr() if self.at("if") else self.block()
            return ("iflet", pat, e, then, els, ln)
        cond = self.expr(no_struct=True)
        then = self.block()
        els = None
        if self.eat("else"):
            els = self.if_expr() if self.at("if") else self.block()
        return ("if", cond, then, els, ln)

    def closure(self):
        params = ""
        if self.eat("||"):
            params = ""
        else:
            self.expect("|")
            start = self.i
            depth = 0
            while not (self.at("|") and depth == 0):
                tk = self.peek()
                if tk[0] == "eof":
                    raise ParseError("closure params run to eof")
                if tk[1] in ("(", "[", "<") and tk[0] == "op":
                    depth += 1
                elif tk[1] in (")", "]", ">") and tk[0] == "op":
                    depth -= 1
                self.i += 1
            params = " ".join(t[1] for t in self.t[start:self.i])
            self.expect("|")
        if self.eat("->"):
            self.type_text()
            body = self.block()
        else:
            body = self.expr()
        names = [w for w in re.findall(r"[A-Za-z_][A-Za-z0-9_]*", params) if w not in ("mut", "ref", "_")]
        return ("closure", params, names, body)


def parse_macro_args(toks):
    """Try to parse macro arguments as a comma-separated expression list (vec![a; n] too)."""
    p = Parser(list(toks) + [("eof", "", toks[-1][2] if toks else 0)])
    if p.peek()[0] == "eof":
        return []
    first = p.expr()
    if p.eat(";"):
        n = p.expr()
        if p.peek()[0] != "eof":
            raise ParseError("macro tail")
        return [("repeat", first, n)]
    out = [first]
    while p.eat(","):
        if p.peek()[0] == "eof":
            break
        out.append(p.expr())
    if p.peek()[0] != "eof":
        raise ParseError("macro tail")
    return out


# ----------------------------------------------------------------------------------------------
# Locating functions in a source file

FN_HEAD_RE = re.compile(r"\bfn\s+([A-Za-z_][A-Za-z0-9_]*)")


def strip_tests(src):
    """Drop the trailing #[cfg(test)] mod tests { ... }"""
    i = src.find("#[cfg(test)]\nmod tests")
    return src[:i] if i >= 0 else src


def match_brace(src, i):
    """src[i] == '{' -> index just after the matching '}' (comments/strings aware enough via tokenizer)."""
    toks = TOKEN_RE.finditer(src, i)
    depth = 0
    for m in toks:
        k = m.lastgroup
        if k in ("ws", "lcomment", "bcomment", "str", "char"):
            continue
        t = m.group()
        if t == "{":
            depth += 1
        elif t == "}":
            depth -= 1
            if depth == 0:
                return m.end()
    raise ParseError("unbalanced braces")


def find_impls(src):
    """Yield (header_text, body_start, body_end) for each top-level impl block."""
    out = []
    for m in re.finditer(r"^impl\b[^{;]*\{", src, re.M):
        start = m.end() - 1
        end = match_brace(src, start)
        header = re.sub(r"\s+", " ", m.group()[:-1]).strip()
        out.append((header, start, end))
    return out


def find_fn(src, name, impl_contains=None, nth=0):
    """Return (signature_text, body_ast, start_line, body_text) of fn `name`, optionally inside the impl block
    whose header contains all strings in `impl_contains` (list)."""
    src_nt = strip_tests(src)
    regions = [(0, len(src_nt), "")]
    if impl_contains is not None:
        regions = [(s, e, h) for (h, s, e) in find_impls(src_nt) if all(c in h for c in impl_contains)]
        if not regions:
            raise ParseError("anchor lost: no impl block matching %r" % (impl_contains,))
    found = []
    for (s, e, h) in regions:
        for m in re.finditer(r"\bfn\s+%s\b" % re.escape(name), src_nt[s:e]):
            pos = s + m.start()
            # find the body's opening brace (skip generics / where clauses); a ';' first means a declaration
            j = pos
            depth = 0
            while j < e:
                c = src_nt[j]
                if c in "(<[":
                    depth += 1
                elif c in ")>]":
                    if not (c == ">" and src_nt[j - 1] == "-"):
                        depth -= 1
                elif c == "{" and depth <= 0:
                    break
                elif c == ";" and depth <= 0:
                    j = -1
                    break
                j += 1
            if j < 0 or j >= e:
                continue
            end = match_brace(src_nt, j)
            found.append((pos, j, end))
    if len(found) <= nth:
        raise ParseError("anchor lost: fn %s in impl %r" % (name, impl_contains))
    pos, j, end = found[nth]
    sig = re.sub(r"\s+", " ", src_nt[pos:j]).strip()
    body_text = src_nt[j:end]
    line0 = src_nt.count("\n", 0, j) + 1
    toks = tokenize(body_text)
    toks = [(k, t, ln + line0 - 1) for (k, t, ln) in toks]
    p = Parser(toks)
    body = p.block()
    if p.peek()[0] != "eof":
        raise ParseError("trailing tokens after fn body %s" % name)
    return sig, body, line0, body_text


def parse_expr(text):
    p = Parser(tokenize(text))
    e = p.expr()
    if p.peek()[0] != "eof":
        raise ParseError("trailing tokens in expression %r" % text)
    return e


# ----------------------------------------------------------------------------------------------
# Generic traversals

def children(node):
    """Sub-nodes (expressions / statements / blocks) of a node."""
    k = node[0]
    if k in ("num", "lit", "path", "continue", "item", "pat"):
        return []
    if k == "field":
        return [node[1]]
    if k == "call":
        return [node[1]] + list(node[2])
    if k == "mcall":
        return [node[1]] + list(node[3])
    if k == "index":
        return [node[1], node[2]]
    if k == "unary":
        return [node[2]]
    if k == "binary":
        return [node[2], node[3]]
    if k == "cast":
        return [node[1]]
    if k == "range":
        return [x for x in (node[1], node[2]) if x is not None]
    if k in ("tuple", "array"):
        return list(node[1])
    if k == "repeat":
        return [node[1], node[2]]
    if k == "paren":
        return [node[1]]
    if k == "block":
        return list(node[1]) + ([node[2]] if node[2] is not None else [])
    if k == "if":
        return [node[1], node[2]] + ([node[3]] if node[3] is not None else [])
    if k == "iflet":
        return [node[2], node[3]] + ([node[4]] if node[4] is not None else [])
    if k == "match":
        out = [node[1]]
        for (pat, guard, body) in node[2]:
            if guard is not None:
                out.append(guard)
            out.append(body)
        return out
    if k == "while":
        return [node[1], node[2]]
    if k == "whilelet":
        return [node[2], node[3]]
    if k == "for":
        return [node[2], node[3]]
    if k == "loop":
        return [node[1]]
    if k == "closure":
        return [node[3]]
    if k == "struct":
        return [v for (_, v) in node[2]] + ([node[3]] if node[3] is not None else [])
    if k == "macro":
        return list(node[2]) if node[2] else []
    if k == "return":
        return [node[1]] if node[1] is not None else []
    if k == "break":
        return [node[1]] if node[1] is not None else []
    if k == "try":
        return [node[1]]
    if k == "unsafe":
        return [node[1]]
    if k == "assign":
        return [node[2], node[3]]
    if k == "let":
        return [node[3]] if node[3] is not None else []
    if k == "expr":
        return [node[1]]
    raise ParseError("children: unknown node kind %r" % (k,))


def walk(node):
    yield node
    for c in children(node):
        for x in walk(c):
            yield x


def strip_paren(e):
    while e[0] == "paren":
        e = e[1]
    return e


def show(e):
    """Render an expression back to compact Rust-like text (for messages and identity checks)."""
    k = e[0]
    if k == "num":
        return e[1] + (e[2] or "")
    if k == "lit":
        return e[1]
    if k == "path":
        return "::".join(e[1])
    if k == "field":
        return "%s.%s" % (show(e[1]), e[2])
    if k == "call":
        return "%s(%s)" % (show(e[1]), ", ".join(show(a) for a in e[2]))
    if k == "mcall":
        return "%s.%s(%s)" % (show(e[1]), e[2], ", ".join(show(a) for a in e[3]))
    if k == "index":
        return "%s[%s]" % (show(e[1]), show(e[2]))
    if k == "unary":
        return "%s%s" % (e[1] + (" " if e[1] == "&mut" else ""), show(e[2]))
    if k == "binary":
        return "(%s %s %s)" % (show(e[2]), e[1], show(e[3]))
    if k == "cast":
        return "(%s as %s)" % (show(e[1]), e[2])
    if k == "range":
        return "%s%s%s" % (show(e[1]) if e[1] else "", "..=" if e[3] else "..", show(e[2]) if e[2] else "")
    if k == "tuple":
        return "(%s)" % ", ".join(show(a) for a in e[1])
    if k == "array":
        return "[%s]" % ", ".join(show(a) for a in e[1])
    if k == "repeat":
        return "[%s; %s]" % (show(e[1]), show(e[2]))
    if k == "paren":
        return show(e[1])
    if k == "assign":
        return "%s %s %s" % (show(e[2]), e[1], show(e[3]))
    if k == "try":
        return show(e[1]) + "?"
    if k == "macro":
        return "%s!(%s)" % (e[1], e[4])
    if k == "closure":
        return "|%s| %s" % (e[1], show(e[3]))
    if k == "struct":
        return "%s { %s }" % ("::".join(e[1]), ", ".join("%s: %s" % (f, show(v)) for f, v in e[2]))
    if k == "if":
        return "if %s {..}%s" % (show(e[1]), " else {..}" if e[3] else "")
    if k == "block":
        return "{..}"
    if k == "unsafe":
        return "unsafe {..}"
    if k == "return":
        return "return " + (show(e[1]) if e[1] else "")
    if k == "let":
        return "let %s = %s" % (e[1][1], show(e[3]) if e[3] else "")
    if k == "expr":
        return show(e[1])
    if k == "for":
        return "for %s in %s {..}" % (e[1][1], show(e[2]))
    if k == "while":
        return "while %s {..}" % show(e[1])
    if k == "match":
        return "match %s {..}" % show(e[1])
    if k == "iflet":
        return "if let %s = %s {..}" % (e[1][1], show(e[2]))
    return "<%s>" % k
