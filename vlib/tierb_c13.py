"""Tier B (syntactic + Z3) caller obligations for C13: every process_into_buffer validates its arguments,
with the advertised sizes, before it touches anything but the internal mask; constructors validate first.

Together with the Tier A contract of validate_buffers (kani/verif_lib__c13.rs) this gives: a malformed call
returns the matching Err, cannot panic in the prefix, writes nothing and leaves every field but the
(dead-at-exit) internal mask unchanged.
"""
import time

import z3

from . import rsparse as rp, smt, syn
from .common import DISCHARGED, FAILED, UNDECIDED, Obligation, Undecided


def ob(name, status, fn, detail="", backend="syntactic", secs=0.0, cex=None):
    return Obligation(name, backend, status, secs, "complete", [fn], detail=detail, checks=1, counterexample=cex)


def find_mask_update(prefix):
    for st in prefix:
        if st[0] == "expr" and st[1][0] == "iflet" and "active_channels_mask" in rp.show(st[1][2]):
            return st[1]
    return None


def check_mask_guard(T, iflet):
    """Inside `if let Some(mask) = active_channels_mask { ... }`: copy_from_slice(mask) into self.channel_mask must be
    preceded by a length test that returns WrongNumberOfMaskChannels{expected, actual: mask.len()}."""
    fn = T + "::process_into_buffer"
    name = "C13.%s.process_into_buffer.mask_length_checked_before_copy" % T
    then = iflet[3]
    guarded = False
    for st in then[1] + ([("expr", then[2], False, 0)] if then[2] is not None else []):
        e = st[1] if st[0] == "expr" else None
        if e is None:
            continue
        if e[0] == "if":
            cond = syn.norm_text(e[1])
            ok_cond = cond in ("(mask.len() != self.channel_mask.len())", "(self.channel_mask.len() != mask.len())",
                               "(mask.len() != self.nbr_channels)", "(self.nbr_channels != mask.len())")
            rets = [n for n in rp.walk(e[2]) if n[0] == "return"]
            ok_ret = False
            for r in rets:
                txt = rp.show(r[1]) if r[1] else ""
                if "WrongNumberOfMaskChannels" in txt and "actual: mask.len()" in txt and (
                        "expected: self.channel_mask.len()" in txt or "expected: self.nbr_channels" in txt):
                    ok_ret = True
            if ok_cond and ok_ret:
                guarded = True
        for n in rp.walk(e):
            if n[0] == "mcall" and n[2] in ("copy_from_slice", "clone_from_slice"):
                if syn.place_of(n[1]) == "self.channel_mask" and not guarded:
                    return ob(name, FAILED, fn,
                              "`%s` can panic: no preceding `if mask.len() != self.channel_mask.len() { return Err(WrongNumberOfMaskChannels{expected, actual: mask.len()}) }` "
                              "(a mask whose length differs from the channel count must yield the matching Err, not a panic)" % rp.show(n)[:80])
            if n[0] == "index" and syn.place_of(n[1]) in ("mask",) and not guarded:
                return ob(name, FAILED, fn, "`%s` indexes the caller's mask without a length check" % rp.show(n)[:80])
    return ob(name, DISCHARGED, fn, "mask length test precedes the copy into self.channel_mask")


def fields_env(src, T, mode="exact"):
    env = smt.Env(mode, consts={"POLYNOMIAL_LEN_U": smt.Val(z3.IntVal(8), "usize"), "POLYNOMIAL_LEN_I": smt.Val(z3.IntVal(8), "isize")})
    wf = []
    for f, ty in syn.struct_fields(src, T).items():
        t = ty.replace(" ", "")
        if t in ("usize", "f64", "f32", "isize", "bool"):
            v = env.declare("self." + f, t)
            if t == "usize":
                wf.append(z3.And(v.t >= 0, v.t < 2 ** 40))
            if t in ("f64", "f32") and f != "last_index":
                wf.append(z3.And(v.t > 0, v.t < 2 ** 30))
    # interpolator getters are opaque non-negative integers
    for txt in ("self.interpolator.len()", "self.interpolator.nbr_sincs()"):
        v = z3.Int(txt)
        env.opaque[txt] = smt.Val(v, "usize")
        wf.append(z3.And(v >= 0, v < 2 ** 24))
    if T == "FftFixedInOut":
        wf.append(env.vars["self.chunk_size_in"].t == env.vars["self.fft_size_in"].t)
    return env, wf


def equiv(name, fn, src, T, a, b, what):
    """a (argument passed to validate_buffers) must equal b (what the getter advertises)."""
    ta, tb = syn.norm_text(a), syn.norm_text(b)
    if ta == tb:
        return ob(name, DISCHARGED, fn, "%s: validated `%s` is the advertised expression" % (what, ta), "expression-identity")
    t0 = time.time()
    try:
        env, wf = fields_env(src, T)
        va, vb = env.ev(a), env.ev(b)
        res, model, secs = smt.check_valid(wf + env.assumes, va.t == vb.t, 30000)
    except Undecided as e:
        return ob(name, UNDECIDED, fn, "%s: cannot compare `%s` with `%s`: %s" % (what, ta, tb, e), "z3")
    if res == "valid":
        return ob(name, DISCHARGED, fn, "%s: `%s` == `%s` for all states" % (what, ta, tb), "z3", secs)
    if res == "invalid":
        return ob(name, FAILED, fn, "%s: process_into_buffer validates against `%s` but the getter advertises `%s`; they differ e.g. at %s" % (
            what, ta, tb, smt.model_dict(model)), "z3", secs, cex=smt.model_dict(model))
    return ob(name, UNDECIDED, fn, "%s: Z3 unknown on `%s` vs `%s`" % (what, ta, tb), "z3", secs)


def stage(scratch, tier, log):
    obs = []
    for T, f in syn.ALL7:
        src = scratch.read(f)
        fn = T + "::process_into_buffer"
        impl = ["Resampler", "for " + T + "<"]
        inherent = ["impl<T> " + T + "<"]
        try:
            sig, body, l0, _ = rp.find_fn(src, "process_into_buffer", impl)
            prefix, callst, call, suffix = syn.split_at_call(body, "validate_buffers")
            sigs = syn.self_method_sigs(src)
            # (1) frame of the prefix
            locals_ = set()
            for st in prefix:
                for n in rp.walk(st):
                    if n[0] == "let":
                        locals_.update(n[1][2])
                    if n[0] in ("iflet",):
                        locals_.update(n[1][2])
            bad, unknown = [], []
            for st in prefix:
                for (place, how, ln) in syn.collect_writes(st, sigs):
                    if place in locals_ or place == "self.channel_mask":
                        continue
                    if place in ("self.?",) or "unknown purity" in how or place == "?":
                        unknown.append(how)
                    else:
                        bad.append("%s (%s)" % (how, place))
            name = "C13.%s.process_into_buffer.nothing_but_the_mask_written_before_validation" % T
            if bad:
                obs.append(ob(name, FAILED, fn, "state is modified before the arguments are validated, so a rejected call does not leave the "
                                                "resampler as it was: " + "; ".join(bad)))
            elif unknown:
                obs.append(ob(name, UNDECIDED, fn, "cannot classify: " + "; ".join(unknown)))
            else:
                obs.append(ob(name, DISCHARGED, fn, "%d prefix statements, writes only to locals and self.channel_mask" % len(prefix)))
            # (2) mask copy guarded
            iflet = find_mask_update(prefix)
            if iflet is None:
                obs.append(ob("C13.%s.process_into_buffer.mask_length_checked_before_copy" % T, UNDECIDED, fn,
                              "anchor lost: no `if let Some(mask) = active_channels_mask` in the prefix"))
            else:
                obs.append(check_mask_guard(T, iflet))
            # (3) the call itself: propagated with `?` at statement level, with the right arguments
            name = "C13.%s.process_into_buffer.validates_with_current_mask_and_channel_count" % T
            e = callst[1] if callst[0] == "expr" else None
            args = call[2]
            if e is None or e[0] != "try" or rp.strip_paren(e[1]) is not call and rp.show(e[1]) != rp.show(call):
                obs.append(ob(name, FAILED, fn, "the result of validate_buffers is not propagated with `?` at statement level: `%s`" % rp.show(callst)[:120]))
            elif len(args) != 6:
                obs.append(ob(name, UNDECIDED, fn, "validate_buffers called with %d arguments" % len(args)))
            else:
                a = [syn.norm_text(x) for x in args[:4]]
                want = ["wave_in", "wave_out", "&self.channel_mask", "self.nbr_channels"]
                if a != want:
                    obs.append(ob(name, FAILED, fn, "validate_buffers is called with (%s), the contract needs (%s): the mask validated must be the "
                                                    "one just stored for this call" % (", ".join(a), ", ".join(want))))
                else:
                    # the mask update must precede the call and be unconditional (Some -> copy, None -> all true)
                    if iflet is not None and iflet[4] is not None and "update_mask_from_buffers(&mut self.channel_mask)" in rp.show(
                            iflet[4][1][0] if iflet[4][1] else iflet[4][2]):
                        obs.append(ob(name, DISCHARGED, fn, "validate_buffers(wave_in, wave_out, &self.channel_mask, self.nbr_channels, ..)? after the mask update"))
                    else:
                        obs.append(ob(name, UNDECIDED, fn, "mask update has an unexpected else-branch"))
                env = syn.let_env(prefix, syn.subst)
                for idx, getter, what in ((4, "input_frames_next", "input size"), (5, "output_frames_next", "output size")):
                    gsig, gbody, gl0, _ = rp.find_fn(src, getter, impl)
                    if gbody[2] is None:
                        raise Undecided("getter %s has no tail expression" % getter)
                    genv = syn.let_env(gbody[1], syn.subst)
                    adv = syn.inline_self_getters(syn.subst(gbody[2], genv), src, [impl, inherent])
                    passed = syn.inline_self_getters(syn.subst(args[idx], env), src, [impl, inherent])
                    obs.append(equiv("C13.%s.process_into_buffer.validates_advertised_%s" % (T, what.replace(" ", "_")), fn, src, T,
                                     passed, adv, what))
        except (rp.ParseError, Undecided) as ex:
            obs.append(ob("C13.%s.process_into_buffer.prefix" % T, UNDECIDED, fn, str(ex), "extraction"))
    # constructors validate first
    ctor = [("FastFixedIn", "asynchro_fast.rs", "new", "validate_ratios", ["resample_ratio", "max_resample_ratio_relative"]),
            ("FastFixedOut", "asynchro_fast.rs", "new", "validate_ratios", ["resample_ratio", "max_resample_ratio_relative"]),
            ("SincFixedIn", "asynchro_sinc.rs", "new_with_interpolator", "validate_ratios", ["resample_ratio", "max_resample_ratio_relative"]),
            ("SincFixedOut", "asynchro_sinc.rs", "new_with_interpolator", "validate_ratios", ["resample_ratio", "max_resample_ratio_relative"]),
            ("FftFixedIn", "synchro.rs", "new", "validate_sample_rates", ["sample_rate_input", "sample_rate_output"]),
            ("FftFixedOut", "synchro.rs", "new", "validate_sample_rates", ["sample_rate_input", "sample_rate_output"]),
            ("FftFixedInOut", "synchro.rs", "new", "validate_sample_rates", ["sample_rate_input", "sample_rate_output"])]
    for T, f, cname, vname, vargs in ctor:
        fn = "%s::%s" % (T, cname)
        name = "C13.%s.%s.validates_arguments_first" % (T, cname)
        try:
            src = scratch.read(f)
            sig, body, l0, _ = rp.find_fn(src, cname, ["impl<T> " + T + "<"])
            first = None
            for st in body[1]:
                if st[0] == "expr" and st[1][0] == "macro" and st[1][1] in ("debug", "trace", "info"):
                    continue
                first = st
                break
            txt = rp.show(first) if first else ""
            want = "%s(%s)?" % (vname, ", ".join(vargs))
            if first is not None and first[0] == "expr" and syn.norm_text(first[1]) == want:
                obs.append(ob(name, DISCHARGED, fn, "first statement is `%s;`" % want))
            else:
                obs.append(ob(name, FAILED, fn, "constructor does not start with `%s;` (found `%s`): invalid arguments can reach allocation / arithmetic "
                                                "before being rejected" % (want, txt[:100])))
        except (rp.ParseError, Undecided) as ex:
            obs.append(ob(name, UNDECIDED, fn, str(ex), "extraction"))
    # the two convenience constructors of the sinc types delegate with the same two leading arguments
    for T in ("SincFixedIn", "SincFixedOut"):
        fn = T + "::new"
        name = "C13.%s.new.delegates_to_validating_constructor" % T
        try:
            src = scratch.read("asynchro_sinc.rs")
            sig, body, l0, _ = rp.find_fn(src, "new", ["impl<T> " + T + "<"])
            tail = body[2]
            ok = tail is not None and tail[0] == "call" and rp.show(tail[1]).endswith("new_with_interpolator") and \
                [syn.norm_text(a) for a in tail[2][:2]] == ["resample_ratio", "max_resample_ratio_relative"]
            sigs = syn.self_method_sigs(src)
            pure = all(st[0] in ("let",) or (st[0] == "expr" and st[1][0] == "macro") for st in body[1])
            if ok and pure:
                obs.append(ob(name, DISCHARGED, fn, "only builds the interpolator, then returns new_with_interpolator(resample_ratio, max_resample_ratio_relative, ..)"))
            else:
                obs.append(ob(name, UNDECIDED if ok else FAILED, fn, "unexpected shape of %s: tail `%s`" % (fn, rp.show(tail)[:100] if tail else None)))
        except (rp.ParseError, Undecided) as ex:
            obs.append(ob(name, UNDECIDED, fn, str(ex), "extraction"))
    return obs
