"""Syntactic frame / information-flow obligations computed on the parsed bodies of /repo's current source:

C11  channel frame: inside every loop over channels each access to per-channel storage is indexed by that loop's own
     channel variable and (for the caller's buffers) guarded by that channel's mask bit; nothing carries a value from one
     channel's iteration to the next; control state and returned counts do not depend on the mask.
C17  control half: no sample-typed value (and nothing that depends on the sample type T) reaches a branch / loop
     condition, an index or range expression, an assignment to control state, or a returned count / getter.
C09  (deny-list form) no allocating construct in the real-time methods.

A violated clause is reported with the offending statement; there is no input to replay (`no-failing-input-found`).
"""
import re

from . import rsparse as rp, syn
from .common import DISCHARGED, FAILED, UNDECIDED, Obligation, Undecided

PER_CHANNEL = {"self.buffer", "wave_in", "wave_out", "self.overlaps", "self.input_buffers", "self.output_buffers",
               "wave_in_padded", "input", "wave_out_vec"}
CALLER_BUFS = {"wave_in", "wave_out"}
RT_METHODS = ["process_into_buffer", "input_frames_max", "input_frames_next", "nbr_channels", "output_frames_max", "output_frames_next",
              "output_delay", "set_resample_ratio", "set_resample_ratio_relative", "reset", "set_chunk_size"]
HELPERS = {"asynchro_fast.rs": ["update_ratio", "interp_septic", "interp_quintic", "interp_cubic", "interp_lin"],
           "asynchro_sinc.rs": ["update_ratio", "update_needed_len", "calc_needed_len", "interp_cubic", "interp_quad", "interp_lin"],
           "synchro.rs": ["resample_unit"],
           "lib.rs": ["validate_buffers", "update_mask_from_buffers"],
           "interpolation.rs": ["get_nearest_time", "get_nearest_times_2", "get_nearest_times_3", "get_nearest_times_4"]}


def ob(name, status, fn, detail="", secs=0.0):
    return Obligation(name, "syntactic", status, secs, "complete", [fn], detail=detail, checks=1)


def methods_of(src, T):
    """(name, body, signature) for every method of type T (inherent and Resampler impl), non-test."""
    out = []
    s = rp.strip_tests(src)
    for (h, s0, e0) in rp.find_impls(s):
        if not re.search(r"\b%s<" % T, h):
            continue
        for m in re.finditer(r"\bfn\s+([A-Za-z_][A-Za-z0-9_]*)", s[s0:e0]):
            try:
                sig, body, l0, _ = rp.find_fn(src, m.group(1), [h[:50]])
            except rp.ParseError:
                continue
            out.append((m.group(1), body, sig))
    return out


# ------------------------------------------------------------------------------------------------ C11
def is_channel_loop(node):
    if node[0] != "for":
        return None
    it = rp.show(node[2])
    if "channel_mask" in it and "enumerate" in it:
        return "mask"
    for st_ in PER_CHANNEL:
        if re.search(r"(^|[^a-z_])%s\b" % re.escape(st_), it):
            return "storage"
    if re.search(r"\b(channels|nbr_channels)\b", it) or re.search(r"channel_mask\s*\.\s*len\(\)", it):
        return "count"
    return None


def chan_var(node):
    names = node[1][2]
    it = rp.show(node[2])
    if "enumerate" in it and names:
        return names[0]
    if re.match(r"^\(?0\s*\.\.", it) and names:
        return names[0]
    return None


def c11_function(T, fname, body, obs, label):
    fn = "%s::%s" % (T, fname)
    problems = []
    loops = [n for n in rp.walk(body) if n[0] == "for" and is_channel_loop(n)]
    # nested channel loops only at the outermost level
    outer = []
    for l in loops:
        if not any(l is not o and any(x is l for x in rp.walk(o[3])) for o in loops):
            outer.append(l)
    inside = set()
    for l in outer:
        for x in rp.walk(l[3]):
            inside.add(id(x))
        cv = chan_var(l)
        kind = is_channel_loop(l)
        bound = set(l[1][2])
        # (1) per-channel storage indexed by the loop's own channel variable
        for n in rp.walk(l[3]):
            base = idx = None
            if n[0] == "index":
                base, idx = n[1], n[2]
            elif n[0] == "mcall" and n[2] in ("get_unchecked", "get_unchecked_mut", "get", "get_mut") and n[3]:
                base, idx = n[1], n[3][0]
            if base is None:
                continue
            bt = rp.show(rp.strip_paren(base))
            if bt in PER_CHANNEL or bt in ("active_channels_mask", "mask", "self.channel_mask"):
                it = rp.show(rp.strip_paren(idx))
                if it.lstrip("*") != (cv or "") and rp.strip_paren(idx)[0] != "range":
                    problems.append("`%s` indexes per-channel storage with `%s` inside the loop over `%s`" % (rp.show(n)[:70], it, cv))
        # (2) caller buffers under the mask guard
        if kind in ("mask", "count"):
            def guarded(node, under):
                res = []
                k = node[0]
                if k == "if":
                    c = rp.show(node[1])
                    g = under or bool(re.search(r"\*?active\b|channel_mask|mask", c))
                    res += guarded(node[2], g)
                    if node[3] is not None:
                        res += guarded(node[3], under)
                    return res
                if k in ("index", "mcall"):
                    b = rp.show(rp.strip_paren(node[1]))
                    if b in CALLER_BUFS and not under and kind in ("mask", "count") and "channel_mask" in rp.show(l[2]):
                        res.append(rp.show(node)[:70])
                for c_ in rp.children(node):
                    res += guarded(c_, under)
                return res
            itxt = rp.show(l[2])
            un = guarded(l[3], bool(re.search(r"filter\(.*channel_mask", itxt)))
            if un:
                problems.append("caller buffer accessed outside the mask guard of its channel: %s" % "; ".join(sorted(set(un))[:3]))
        # (2b) control state is not modified inside a loop over channels (every channel must see the same state)
        for (place, how, ln) in syn.collect_writes(l[3], {}):
            if place and place.startswith("self.") and place not in PER_CHANNEL and place not in ("self.channel_mask", "self.resampler", "self.*", "self.?"):
                problems.append("control state `%s` is modified inside the loop over channels (%s): later channels see a different state" % (place, how[:60]))
        # (3) nothing carried from one channel's iteration to the next
        declared = set(bound)
        for n in rp.walk(l[3]):
            if n[0] == "let":
                declared.update(n[1][2])
            if n[0] in ("for", "closure", "iflet", "whilelet"):
                declared.update(n[1][2] if n[0] != "closure" else n[2])
        cands = {}
        for n in rp.walk(l[3]):
            if n[0] == "assign":
                pl = syn.place_of(n[2])
                if pl and not pl.startswith("self.") and pl not in declared and pl not in PER_CHANNEL and pl.split(".")[0] not in declared:
                    cands.setdefault(pl, []).append(n)
        for v_, assigns in cands.items():
            # first mention of v_ in the body must be a write that does not read it
            first = None
            for st_ in l[3][1] + ([("expr", l[3][2], False, 0)] if l[3][2] is not None else []):
                if any(x[0] == "path" and x[1] == [v_] for x in rp.walk(st_)):
                    first = st_
                    break
            ok = False
            if first is not None:
                # descend through `if *active { ... }`
                node = first[1] if first[0] == "expr" else first
                while rp.strip_paren(node)[0] in ("if", "unsafe", "block"):
                    nn = rp.strip_paren(node)
                    blk = nn[2] if nn[0] == "if" else (nn[1] if nn[0] == "unsafe" else nn)
                    items = blk[1] + ([("expr", blk[2], False, 0)] if blk[2] is not None else [])
                    nxt = None
                    for st2 in items:
                        if any(x[0] == "path" and x[1] == [v_] for x in rp.walk(st2)):
                            nxt = st2
                            break
                    if nxt is None:
                        break
                    node = nxt[1] if nxt[0] == "expr" else nxt
                    if nxt[0] != "expr":
                        break
                nn = rp.strip_paren(node)
                if nn[0] == "assign" and nn[1] == "=" and rp.show(rp.strip_paren(nn[2])) == v_ and \
                        not any(x[0] == "path" and x[1] == [v_] for x in rp.walk(nn[3])):
                    ok = True
            if not ok:
                problems.append("`%s` is assigned inside the loop over channels and read before it is re-assigned: a value flows from one channel to the next (`%s`)" % (
                    v_, rp.show(assigns[0])[:70]))
    # (4) outside channel loops: caller output untouched, and control flow / control state independent of the mask
    for n in rp.walk(body):
        if id(n) in inside or any(n is l for l in outer):
            continue
        if n[0] in ("index", "mcall") and n[0] == "index" and rp.show(rp.strip_paren(n[1])) == "wave_out":
            problems.append("caller output touched outside a loop over channels: `%s`" % rp.show(n)[:60])
        if n[0] in ("if", "while") and re.search(r"channel_mask|active_channels_mask|\bmask\b", rp.show(n[1])):
            txt = rp.show(n[1])
            if not re.search(r"mask\.len\(\)", txt):
                problems.append("control flow outside the channel loops depends on the mask: `if %s`" % txt[:70])
        if n[0] == "iflet" and "active_channels_mask" in rp.show(n[2]):
            # the mask update itself: may only write self.channel_mask / return the mask-length error
            for w in syn.collect_writes(n[3], {}):
                if w[0] not in ("self.channel_mask", None) and not w[0].startswith("mask"):
                    problems.append("the mask update writes `%s`" % w[0])
        if n[0] == "assign":
            pl = syn.place_of(n[2])
            if pl and pl.startswith("self.") and pl not in ("self.channel_mask",) and re.search(r"channel_mask|\bactive\b|\bmask\b", rp.show(n[3])):
                problems.append("control state `%s` is computed from the mask: `%s`" % (pl, rp.show(n)[:70]))
    name = "C11.%s.%s.%s" % (T, fname, label)
    if problems:
        obs.append(ob(name, FAILED, fn, "; ".join(sorted(set(problems)))[:900]))
    else:
        obs.append(ob(name, DISCHARGED, fn, "%d channel loop(s) checked" % len(outer)))


def c11_stage(scratch, tier, log):
    obs = []
    for T, f in syn.ALL7:
        src = scratch.read(f)
        try:
            for (m, body, sig) in methods_of(src, T):
                if m in ("process_into_buffer", "reset"):
                    c11_function(T, m, body, obs, "channel_frame")
        except (rp.ParseError, Undecided) as e:
            obs.append(ob("C11.%s.channel_frame" % T, UNDECIDED, T, str(e)))
    # the default methods of the trait and resample_unit
    try:
        lib = scratch.read("lib.rs")
        for m in ("process", "process_partial_into_buffer", "process_partial"):
            sig, body, l0, _ = rp.find_fn(lib, m, None)
            c11_function("Resampler", m, body, obs, "channel_frame")
        # (that validate_buffers inspects active channels only is the Tier A contract kani/verif_lib__c13.rs, props C13,C11)
    except (rp.ParseError, Undecided) as e:
        obs.append(ob("C11.lib.channel_frame", UNDECIDED, "lib.rs", str(e)))
    # shared FFT work buffers are fully overwritten per unit
    try:
        syn_src = scratch.read("synchro.rs")
        sig, body, l0, _ = rp.find_fn(syn_src, "resample_unit", None)
        tmp = []
        fields = syn.struct_fields(syn_src, "FftResampler")
        storage = [k for k, ty in fields.items() if "Vec<" in ty] + ["fft", "ifft"]
        c17_function("FftResampler", "resample_unit", body, sig, storage, tmp)
        for o in tmp:
            o.name = "C11.FftResampler.resample_unit.same_path_for_every_channel(no branch on sample values)"
            if o.status == FAILED:
                o.detail = "resample_unit takes a data-dependent path, so what a channel receives depends on the shared work buffers' previous contents: " + o.detail
            obs.append(o)
        rets = [n for n in rp.walk(body) if n[0] == "return"]
        obs.append(ob("C11.FftResampler.resample_unit.single_exit", FAILED if rets else DISCHARGED, "FftResampler::resample_unit",
                      "early return in resample_unit: the per-channel overlap may not be updated from this unit's transform" if rets else ""))
        # (that the shared work buffers are completely rewritten per unit is the Tier A contract kani/verif_synchro__unit.rs)
    except (rp.ParseError, Undecided) as e:
        obs.append(ob("C11.FftResampler.resample_unit", UNDECIDED, "resample_unit", str(e)))
    return obs


# ------------------------------------------------------------------------------------------------ C17
SAMPLE_TYPE_RE = re.compile(r"\bT\b|\bVin\b|\bVout\b|\bV\b|Complex")


def param_taint(sig):
    """parameter names whose type mentions the sample type"""
    out = set()
    m = re.search(r"\((.*)\)", sig, re.S)
    if not m:
        return out
    depth = 0
    cur = ""
    parts = []
    for ch in m.group(1):
        if ch in "(<[":
            depth += 1
        elif ch in ")>]":
            depth -= 1
        if ch == "," and depth == 0:
            parts.append(cur)
            cur = ""
        else:
            cur += ch
    parts.append(cur)
    for p_ in parts:
        if ":" in p_:
            n, ty = p_.split(":", 1)
            n = n.replace("mut", "").replace("&", "").strip()
            if SAMPLE_TYPE_RE.search(ty) and "bool" not in ty:
                out.add(n)
    return out


def c17_function(T, fname, body, sig, storage_fields, obs, strict_lets=False):
    fn = "%s::%s" % (T, fname)
    tainted = set(param_taint(sig))
    storage = set("self." + f for f in storage_fields)

    def expr_tainted(e, skip_len=True):
        e = rp.strip_paren(e)
        k = e[0]
        if k == "mcall" and e[2] in ("len", "is_empty", "nbr_sincs", "capacity") and not e[3]:
            return False                      # lengths are control, not sample data
        if k == "mcall" and rp.show(rp.strip_paren(e[1])) == "self.interpolator" and e[2] in ("len", "nbr_sincs"):
            return False
        if k == "path":
            n = "::".join(e[1])
            if n in tainted:
                return True
            if e[1][0] == "T" or "size_of" in n or "align_of" in n:
                return True
            return False
        if k == "field":
            t = rp.show(e)
            if t in storage:
                return True
            return expr_tainted(e[1])
        if k == "macro":
            if e[1] == "t":
                return True
            return any(expr_tainted(a) for a in (e[2] or []))
        if k == "call":
            f = rp.show(e[1])
            if f.startswith("T::") or f.startswith("interp_") or "size_of" in f:
                return True
            return any(expr_tainted(a) for a in e[2])
        if k == "mcall" and e[2] == "get_sinc_interpolated":
            return True
        if k == "closure":
            return expr_tainted(e[3])
        return any(expr_tainted(c) for c in rp.children(e))

    # propagate through lets / assignments / loop bindings to a fixpoint
    changed = True
    while changed:
        changed = False
        for n in rp.walk(body):
            if n[0] == "let" and n[3] is not None and expr_tainted(n[3]):
                for v_ in n[1][2]:
                    if v_ not in tainted:
                        tainted.add(v_)
                        changed = True
            if n[0] == "assign":
                l = rp.strip_paren(n[2])
                if l[0] == "path" and len(l[1]) == 1 and expr_tainted(n[3]) and l[1][0] not in tainted:
                    tainted.add(l[1][0])
                    changed = True
            if n[0] == "for" and expr_tainted(n[2]):
                it = rp.show(n[2])
                names = list(n[1][2])
                itn = rp.strip_paren(n[2])
                if itn[0] == "mcall" and itn[2] == "zip" and len(names) == 2 and len(itn[3]) == 1:
                    # (a, b) in A.zip(B): each component is tainted by its own source
                    names = ([names[0]] if expr_tainted(itn[1]) else []) + ([names[1]] if expr_tainted(itn[3][0]) else [])
                elif "enumerate" in it and names:
                    names = names[1:]              # the index of enumerate() is control
                for v_ in names:
                    if v_ not in tainted:
                        tainted.add(v_)
                        changed = True
    problems = []
    control_fields = {"last_index", "resample_ratio", "target_ratio", "chunk_size", "needed_input_size", "current_buffer_fill", "saved_frames",
                      "frames_needed", "channel_mask", "max_chunk_size", "resample_ratio_original", "max_relative_ratio", "nbr_channels",
                      "fft_size_in", "fft_size_out", "chunk_size_in", "chunk_size_out"}
    for n in rp.walk(body):
        k = n[0]
        if k in ("if", "while") and expr_tainted(n[1]):
            problems.append("branch / loop condition depends on sample data or on the sample type: `%s`" % rp.show(n[1])[:80])
        if k == "match" and expr_tainted(n[1]):
            problems.append("match on sample data: `%s`" % rp.show(n[1])[:60])
        if k == "index" and expr_tainted(n[2]):
            problems.append("index depends on sample data: `%s`" % rp.show(n)[:80])
        if k == "range" and ((n[1] is not None and expr_tainted(n[1])) or (n[2] is not None and expr_tainted(n[2]))):
            problems.append("range bound depends on sample data: `%s`" % rp.show(n)[:80])
        if k == "assign":
            pl = syn.place_of(n[2])
            if pl and pl.startswith("self.") and pl[5:] in control_fields and expr_tainted(n[3]):
                problems.append("control state `%s` is computed from sample data / the sample type: `%s`" % (pl, rp.show(n)[:80]))
        if k == "cast" and n[2].replace(" ", "") in ("usize", "isize") and expr_tainted(n[1]):
            problems.append("a sample value is turned into a count/index: `%s`" % rp.show(n)[:80])
    if strict_lets:
        for n in rp.walk(body):
            if n[0] == "let" and any(v_ in tainted for v_ in n[1][2]):
                problems.append("size computation depends on the sample type: `%s`" % rp.show(n)[:90])
    ret_is_control = bool(re.search(r"->\s*(usize|bool|ResampleResult<\s*\(\s*usize|Result<\(\)|ResampleResult<\(\)>|Box<dyn SincInterpolator)", sig))
    if ret_is_control and body[2] is not None and re.search(r"->\s*(usize|bool|ResampleResult<\s*\(\s*usize)", sig):
        if expr_tainted(body[2]):
            problems.append("the returned count depends on sample data / the sample type: `%s`" % rp.show(body[2])[:80])
    name = "C17.%s.%s.control_independent_of_samples_and_sample_type" % (T, fname)
    if problems:
        obs.append(ob(name, FAILED, fn, "; ".join(sorted(set(problems)))[:900]))
    else:
        obs.append(ob(name, DISCHARGED, fn, "tainted locals: %s" % sorted(tainted)[:8]))


def c17_stage(scratch, tier, log):
    obs = []
    for T, f in syn.ALL7:
        src = scratch.read(f)
        try:
            fields = syn.struct_fields(src, T)
            storage = [k for k, ty in fields.items() if "Vec<" in ty and "bool" not in ty] + ["resampler"]
            seen = set()
            for (m, body, sig) in methods_of(src, T):
                if (m, sig) in seen:
                    continue
                seen.add((m, sig))
                c17_function(T, m, body, sig, storage, obs)
        except (rp.ParseError, Undecided) as e:
            obs.append(ob("C17.%s" % T, UNDECIDED, T, str(e)))
    try:
        src = scratch.read("synchro.rs")
        fields = syn.struct_fields(src, "FftResampler")
        storage = [k for k, ty in fields.items() if "Vec<" in ty] + ["fft", "ifft"]
        sig, body, l0, _ = rp.find_fn(src, "resample_unit", None)
        c17_function("FftResampler", "resample_unit", body, sig, storage, obs)
    except (rp.ParseError, Undecided) as e:
        obs.append(ob("C17.FftResampler", UNDECIDED, "FftResampler", str(e)))
    # constructor helpers whose results size the control state
    try:
        src = scratch.read("asynchro_sinc.rs")
        sig, body, l0, _ = rp.find_fn(src, "make_interpolator", None)
        # only the *size* computations matter here (the interpolator objects themselves are T-typed by design)
        pre = ("block", [st for st in body[1] if st[0] == "let"], None)
        c17_function("asynchro_sinc", "make_interpolator(size computations)", pre, "fn make_interpolator(sinc_len: usize, resample_ratio: f64, f_cutoff: f32, oversampling_factor: usize) -> usize", [], obs, strict_lets=True)
        src = scratch.read("synchro.rs")
        for T in ("FftFixedIn", "FftFixedOut", "FftFixedInOut"):
            sig, body, l0, _ = rp.find_fn(src, "new", ["impl<T> " + T + "<"])
            pre = ("block", [st for st in body[1] if st[0] == "let" and not re.search(r"vec!|FftResampler", rp.show(st))], None)
            c17_function(T, "new(size computations)", pre, "fn new(a: usize) -> usize", [], obs, strict_lets=True)
    except (rp.ParseError, Undecided) as e:
        obs.append(ob("C17.constructors", UNDECIDED, "constructors", str(e)))
    return obs


# ------------------------------------------------------------------------------------------------ C09 (deny list)
ALLOC_METHODS = {"to_vec", "to_owned", "to_string", "collect", "push", "push_str", "extend", "extend_from_slice", "resize", "reserve",
                 "reserve_exact", "insert", "append", "into_boxed_slice", "into_vec", "repeat", "concat", "join", "split_off", "drain_filter",
                 "make_scratch_vec", "make_input_vec", "make_output_vec", "with_capacity", "shrink_to_fit", "shrink_to", "dedup", "retain",
                 "truncate", "clear", "pop", "remove", "swap_remove", "clone",
                 "sort", "sort_by", "sort_by_key", "sort_by_cached_key", "into_owned", "to_uppercase", "to_lowercase"}
OWNING_TYPE = re.compile(r"\b(Vec|Box|String|Arc|Rc|VecDeque|HashMap|BTreeMap|Cow)\b")
ALLOC_PATHS = re.compile(r"\b(Vec|String|Box|Arc|Rc|HashMap|BTreeMap|VecDeque)::(new|with_capacity|from|from_iter|default)\b|\bformat\b|\bvec\b")
DEALLOC_ONLY = {"truncate", "clear", "pop", "remove", "swap_remove"}


def c09_function(T, fname, body, obs):
    fn = "%s::%s" % (T, fname)
    problems = []
    for n in rp.walk(body):
        if n[0] == "macro" and n[1] in ("vec", "format", "println", "eprintln", "print", "panic", "write", "writeln"):
            if n[1] == "panic":
                continue
            problems.append("`%s!` allocates" % n[1])
        if n[0] == "mcall":
            m = n[2]
            recv = rp.show(rp.strip_paren(n[1]))
            if m in ("process",) and re.search(r"\bfft\b|\bifft\b", recv):
                problems.append("`%s.process(..)` allocates its scratch space (use process_with_scratch)" % recv)
            if m in ALLOC_METHODS:
                if m == "clone" and not re.search(r"buffer|mask|overlaps|wave|Vec|vec", recv):
                    continue
                if m in DEALLOC_ONLY:
                    continue          # shrinking a caller-visible Vec does not touch the allocator (capacity kept)
                problems.append("`%s.%s(..)` can (re)allocate" % (recv[:40], m))
        if n[0] == "call":
            f = rp.show(n[1])
            if ALLOC_PATHS.search(f) or f in ("make_buffer", "resize_buffer"):
                problems.append("`%s(..)` allocates" % f)
        if n[0] == "let" and n[2] and OWNING_TYPE.search(n[2]) and not n[2].lstrip().startswith("&"):
            # a local of an owning heap type is created (conversion through `.into()` / `From` included) and dropped here
            problems.append("`let %s: %s = ..` creates (and drops) an owned heap value" % (n[1][1], n[2].replace(" ", "")))
        if n[0] == "assign":
            # assigning a fresh Vec to a field drops (deallocates) the old one
            if re.search(r"\.to_vec\(\)|vec!|Vec::", rp.show(n[3])):
                problems.append("`%s` replaces a buffer (deallocation + allocation)" % rp.show(n)[:60])
    name = "C09.%s.%s.no_allocating_construct" % (T, fname)
    if problems:
        obs.append(ob(name, FAILED, fn, "; ".join(sorted(set(problems)))[:700]))
    else:
        obs.append(ob(name, DISCHARGED, fn))


def c09_stage(scratch, tier, log):
    obs = []
    for T, f in syn.ALL7:
        src = scratch.read(f)
        try:
            seen = set()
            allm = methods_of(src, T)
            # closure of the real-time methods under `self.<method>(..)` / `Self::<method>(..)` calls (a helper a maintainer adds later is
            # followed automatically; constructors are not real-time)
            want = set(RT_METHODS + ["update_ratio", "update_needed_len", "calc_needed_len"])
            grew = True
            while grew:
                grew = False
                for (m, body, sig) in allm:
                    if m not in want:
                        continue
                    for n in rp.walk(body):
                        callee = None
                        if n[0] == "mcall" and rp.show(rp.strip_paren(n[1])) in ("self", "Self"):
                            callee = n[2]
                        if n[0] == "call" and rp.show(n[1]).startswith("Self::"):
                            callee = rp.show(n[1])[6:]
                        if callee and callee not in want and any(mm == callee for (mm, _, _) in allm) and not callee.startswith("new"):
                            want.add(callee)
                            grew = True
            for (m, body, sig) in allm:
                if m in want and (m, sig) not in seen:
                    seen.add((m, sig))
                    c09_function(T, m, body, obs)
        except (rp.ParseError, Undecided) as e:
            obs.append(ob("C09.%s" % T, UNDECIDED, T, str(e)))
    for f, names in HELPERS.items():
        try:
            src = scratch.read(f)
            for nme in names:
                k = 0
                while True:
                    try:
                        sig, body, l0, _ = rp.find_fn(src, nme, None, k)
                    except rp.ParseError:
                        break
                    c09_function(f.replace(".rs", ""), nme + ("" if k == 0 else "#%d" % k), body, obs)
                    k += 1
        except (rp.ParseError, Undecided) as e:
            obs.append(ob("C09.%s" % f, UNDECIDED, f, str(e)))
    try:
        src = scratch.read("sinc_interpolator/mod.rs")
        sig, body, l0, _ = rp.find_fn(src, "get_sinc_interpolated", ["SincInterpolator<T> for ScalarInterpolator"])
        c09_function("ScalarInterpolator", "get_sinc_interpolated", body, obs)
    except (rp.ParseError, Undecided) as e:
        obs.append(ob("C09.ScalarInterpolator", UNDECIDED, "ScalarInterpolator", str(e)))
    return obs
