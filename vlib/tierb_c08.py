"""C08: the polynomial resamplers evaluate the unique interpolating polynomial through the 8/6/4/2 nearest samples.

(i)  The bodies of interp_septic/quintic/cubic/lin are extracted from asynchro_fast.rs, turned into exact rational
     polynomials in x and the sample values (float literals are read as the decimal / quotient they denote; their
     1-ulp rounding is an assumption) and compared, by polynomial expansion, with the Lagrange interpolant through the
     nodes -k..W-1-k.  Equality of polynomials is decided exactly (sympy), for all x and all sample values.
(ii) Window choice (which samples, which abscissa) is a Tier B step obligation on the extracted index expressions of
     every match arm of FastFixedIn/FastFixedOut (vlib/tierb_async.py): window start == floor(idx) - k + 2L, length W,
     abscissa == idx - floor(idx); plus: the arm calls the interpolation function of its own degree.
"""
import time

import sympy as sp

from . import rsparse as rp
from .common import DISCHARGED, FAILED, UNDECIDED, Obligation, Undecided

# function -> (number of points W, index k of the node x = 0)
FUNCS = {"interp_septic": (8, 3), "interp_quintic": (6, 2), "interp_cubic": (4, 1), "interp_lin": (2, 0)}
ARMS = {"Septic": "interp_septic", "Quintic": "interp_quintic", "Cubic": "interp_cubic", "Linear": "interp_lin", "Nearest": None}


def to_sympy(e, env):
    e = rp.strip_paren(e)
    k = e[0]
    if k == "num":
        return sp.Rational(e[1])
    if k == "path":
        n = "::".join(e[1])
        if n in env:
            return env[n]
        raise Undecided("unknown name %s in interpolation function" % n)
    if k == "index":
        base = rp.show(e[1])
        idx = rp.strip_paren(e[2])
        if base == "yvals" and idx[0] == "num":
            return env["yvals"][int(idx[1])]
        raise Undecided("index %s" % rp.show(e))
    if k == "unary" and e[1] == "-":
        return -to_sympy(e[2], env)
    if k == "binary" and e[1] in "+-*/":
        a, b = to_sympy(e[2], env), to_sympy(e[3], env)
        return {"+": a + b, "-": a - b, "*": a * b, "/": a / b}[e[1]]
    if k == "macro" and e[1] == "t" and e[2]:
        return to_sympy(e[2][0], env)
    if k == "call" and rp.show(e[1]) in ("T::coerce", "T::coerce_from") and len(e[2]) == 1:
        return to_sympy(e[2][0], env)
    if k == "call" and rp.show(e[1]) == "T::one":
        return sp.Integer(1)
    if k == "call" and rp.show(e[1]) == "T::zero":
        return sp.Integer(0)
    raise Undecided("construct %s in interpolation function: %s" % (k, rp.show(e)[:60]))


def poly_of(src, fname, W):
    sig, body, l0, _ = rp.find_fn(src, fname, None)
    x = sp.Symbol("x")
    ys = sp.symbols("y0:%d" % W)
    env = {"x": x, "yvals": list(ys)}
    for st in body[1]:
        if st[0] != "let" or st[3] is None or len(st[1][2]) != 1:
            raise Undecided("unexpected statement in %s: %s" % (fname, rp.show(st)[:60]))
        env[st[1][2][0]] = to_sympy(st[3], env)
    if body[2] is None:
        raise Undecided("%s has no tail expression" % fname)
    return sp.expand(to_sympy(body[2], env)), x, ys


def lagrange(x, ys, k):
    W = len(ys)
    nodes = [sp.Integer(i - k) for i in range(W)]
    tot = 0
    for i in range(W):
        li = 1
        for j in range(W):
            if i != j:
                li *= (x - nodes[j]) / (nodes[i] - nodes[j])
        tot += ys[i] * li
    return sp.expand(tot)


def stage(scratch, tier, log):
    obs = []
    src = scratch.read("asynchro_fast.rs")
    for fname, (W, k) in FUNCS.items():
        name = "C08.%s.is_the_lagrange_interpolant_through_%d_points(nodes %d..%d)" % (fname, W, -k, W - 1 - k)
        t0 = time.time()
        try:
            p, x, ys = poly_of(src, fname, W)
            want = lagrange(x, ys, k)
            diff = sp.expand(p - want)
            secs = time.time() - t0
            if diff == 0:
                obs.append(Obligation(name, "sympy-%s exact polynomial identity" % sp.__version__, DISCHARGED, secs, "complete",
                                      [fname], checks=1, detail="degree %d in x, linear in the %d samples" % (sp.degree(p, x), W)))
            else:
                # a witness: sample vector and abscissa where they differ
                wit = None
                for i in range(W):
                    sub = {y: (1 if j == i else 0) for j, y in enumerate(ys)}
                    d = sp.expand(diff.subs(sub))
                    if d != 0:
                        for xv in (sp.Rational(1, 2), sp.Rational(1, 3), sp.Rational(7, 8), 0, 1):
                            if d.subs(x, xv) != 0:
                                wit = {"samples": "unit vector e_%d" % i, "x": str(xv), "code": str(p.subs(sub).subs(x, xv)),
                                       "interpolant": str(want.subs(sub).subs(x, xv))}
                                break
                    if wit:
                        break
                obs.append(Obligation(name, "sympy-%s exact polynomial identity" % sp.__version__, FAILED, secs, "complete", [fname], checks=1,
                                      detail="%s is not the polynomial through its %d samples: difference %s; e.g. %s" % (
                                          fname, W, str(sp.factor(diff))[:300], wit), counterexample=wit))
        except (rp.ParseError, Undecided) as e:
            obs.append(Obligation(name, "extraction", UNDECIDED, detail=str(e), functions=[fname]))
    return obs


def native_replay_program(wit, fname):
    return None
