"""Native replay of counterexamples against the real code: a tiny crate with a path dependency on the
snapshot is built in debug mode (so std's unsafe-precondition checks and overflow checks are on) and run."""
import os

from .common import run

CARGO = """[package]
name = "verif_replay"
version = "0.0.0"
edition = "2021"

[dependencies]
rubato = { path = "../snap" }

[profile.dev]
debug-assertions = true
overflow-checks = true
"""


def run_program(scratch, name, main_rs, timeout=900):
    """Build and run `main_rs` (a full Rust program using rubato's public API) against the snapshot.
    Returns (rc, output)."""
    d = os.path.join(scratch.root, "replay_" + name)
    os.makedirs(os.path.join(d, "src"), exist_ok=True)
    with open(os.path.join(d, "Cargo.toml"), "w") as f:
        f.write(CARGO)
    lock = os.path.join(scratch.snap, "Cargo.lock")
    with open(os.path.join(d, "src", "main.rs"), "w") as f:
        f.write(main_rs)
    tgt = os.path.join(scratch.root, "replay-target")
    rc, out, secs = run(["cargo", "run", "--offline", "-q"], cwd=d,
                        env={"CARGO_TARGET_DIR": tgt, "RUST_BACKTRACE": "0"}, timeout=timeout)
    return rc, out


def f64_lit(x):
    """Exact Rust literal for a Python float."""
    import struct
    bits = struct.unpack("<Q", struct.pack("<d", float(x)))[0]
    return "f64::from_bits(0x%016x)" % bits
