#!/usr/bin/env python3
"""tools/run_seeded.py <seed-id> [<prop> ...] : applies seeded/<id>/patch.diff to /repo, runs ./check for the
given properties (default: the property named in meta.json), undoes the patch, and records what happened in
seeded/<id>/detection.json.  Never commits anything in /repo."""
import json, os, subprocess, sys, time
V = os.path.dirname(os.path.dirname(os.path.abspath(__file__)))
sid = sys.argv[1]
d = os.path.join(V, "seeded", sid)
meta = json.load(open(os.path.join(d, "meta.json"))) if os.path.exists(os.path.join(d, "meta.json")) else {}
props = sys.argv[2:] or [meta.get("property")]
assert subprocess.run(["git", "-C", "/repo", "status", "--porcelain"], capture_output=True, text=True).stdout.strip() == "", "/repo not clean"
subprocess.check_call(["git", "-C", "/repo", "apply", os.path.join(d, "patch.diff")])
res = {}
try:
    for p in props:
        t0 = time.time()
        r = subprocess.run([os.path.join(V, "check"), p, "--tier", os.environ.get("TIER", "quick")], cwd=V, capture_output=True, text=True)
        lines = [l for l in r.stdout.splitlines() if l.startswith(("VIOLATION", "UNDECIDED", "OK", "KNOWN-FINDING", "  failed obligation"))]
        res[p] = {"exit": r.returncode, "wall_s": round(time.time() - t0, 1), "lines": [l[:400] for l in lines][:12]}
        print(sid, p, "exit", r.returncode, *[l[:200] for l in lines[:4]], sep="\n  ")
finally:
    subprocess.check_call(["git", "-C", "/repo", "checkout", "--", "."])
det = {}
pth = os.path.join(d, "detection.json")
if os.path.exists(pth):
    det = json.load(open(pth))
det.update(res)
json.dump(det, open(pth, "w"), indent=1)
