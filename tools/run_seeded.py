#!/usr/bin/env python3
"""tools/run_seeded.py <seed-id> [<prop> ...]

Development helper: copies /repo's working tree to a scratch directory, applies seeded/<id>/patch.diff THERE
(equivalent to `git -C /repo apply` + run + `git -C /repo checkout -- .`, but leaves /repo alone so that several
can run at once), runs ./check for the given properties (default: the one in meta.json) against that copy via
VERIF_REPO, and records what happened in seeded/<id>/detection.json. Evidence/replay files of these runs go to the
scratch directory, never to /verif/evidence."""
import json, os, shutil, subprocess, sys, time
V = os.path.dirname(os.path.dirname(os.path.abspath(__file__)))
sid = sys.argv[1]
d = os.path.join(V, "seeded", sid)
meta = json.load(open(os.path.join(d, "meta.json"))) if os.path.exists(os.path.join(d, "meta.json")) else {}
props = sys.argv[2:] or [meta.get("property")]
W = "/var/tmp/seedrun.%s.%d" % (sid, os.getpid())
shutil.rmtree(W, ignore_errors=True)
os.makedirs(W)
subprocess.check_call(["rsync", "-a", "--exclude", "target", "--exclude", ".git", "/repo/", W + "/repo/"])
subprocess.check_call(["git", "apply", os.path.join(d, "patch.diff")], cwd=W + "/repo")
res = {}
env = dict(os.environ, VERIF_REPO=W + "/repo", VERIF_EVIDENCE_DIR=W + "/evidence", VERIF_REPLAY_DIR=W + "/replays")
try:
    for p in props:
        t0 = time.time()
        r = subprocess.run([os.path.join(V, "check"), p, "--tier", os.environ.get("TIER", "quick")], cwd=V, capture_output=True, text=True, env=env)
        lines = [l for l in r.stdout.splitlines() if l.startswith(("VIOLATION", "UNDECIDED", "OK", "KNOWN-FINDING", "  failed obligation", "  undecided"))]
        res[p] = {"exit": r.returncode, "wall_s": round(time.time() - t0, 1), "lines": [l[:500] for l in lines][:12]}
        print(sid, p, "exit", r.returncode)
        for l in lines[:6]:
            print("   ", l[:260])
        sys.stdout.flush()
finally:
    shutil.rmtree(W, ignore_errors=True)
det = {}
pth = os.path.join(d, "detection.json")
if os.path.exists(pth):
    det = json.load(open(pth))
det.update(res)
json.dump(det, open(pth, "w"), indent=1)
