#!/bin/bash
# tools/run_benign.sh [checks...]  - apply each benign refactoring (benign/<id>/patch.diff) to a scratch copy of /repo and run the
# given checks (default: all but the Kani stages, VERIF_SKIP_KANI=1) against it; exit 1 anywhere is a false alarm, exit 2 is "undecided".
cd /verif
CHECKS=${@:-C03 C08 C09 C10 C11 C12 C13 C14 C16 C17}
run_one() {
  id=$1
  W=/var/tmp/benign.$id; rm -rf $W; mkdir -p $W
  rsync -a --exclude target --exclude .git /repo/ $W/repo/
  (cd $W/repo && git apply /verif/benign/$id/patch.diff) || { echo "$id PATCH-FAIL"; return; }
  res=""
  for p in $CHECKS; do
    VERIF_SKIP_KANI=${VERIF_SKIP_KANI-1} VERIF_REPO=$W/repo VERIF_EVIDENCE_DIR=$W/ev VERIF_REPLAY_DIR=$W/rp ./check $p > $W/$p.out 2>&1; rc=$?
    res="$res $p:$rc"
    if [ $rc != 0 ]; then grep -m2 -E "failed obligation|undecided:" $W/$p.out | cut -c1-300 | sed "s/^/    [$id $p] /"; fi
  done
  echo "$id $res"
  rm -rf $W
}
n=0
for d in benign/B*; do
  run_one $(basename $d) &
  n=$((n+1)); if [ $((n % 4)) = 0 ]; then wait; fi
done
wait
echo BENIGN DONE
