#!/bin/bash
# usage: verify_seed.sh <agent-out-dir> <n> <dest-id>
# Confirms a seeded change in a fresh scratch worktree of /repo:
#  unchanged tree: demo passes; with patch: full test suite passes AND demo fails.
# On success stores it under /verif/seeded/<dest-id>/.
set -u
OUT=$1; N=$2; ID=$3
W=/var/tmp/seedchk.$ID
rm -rf $W; git -C /repo worktree prune; git -C /repo worktree add -q --detach $W HEAD || exit 3
export CARGO_TARGET_DIR=$W/target CARGO_NET_OFFLINE=true
cd $W
cp $OUT/demo_$N.rs examples/seed_demo.rs
r_base=$(cargo run --offline --example seed_demo >/dev/null 2>$W/base.log; echo $?)
git apply $OUT/patch_$N.diff || { echo "$ID: patch does not apply"; git -C /repo worktree remove --force $W; exit 3; }
cargo test --workspace --no-fail-fast --offline > $W/test.log 2>&1; r_test=$?
npass=$(grep -E "^test result: ok" $W/test.log | head -1 | sed -E 's/.* ([0-9]+) passed.*/\1/')
r_pat=$(cargo run --offline --example seed_demo >$W/pat.out 2>$W/pat.log; echo $?)
echo "$ID: demo_unchanged_rc=$r_base tests_rc=$r_test passed=$npass demo_patched_rc=$r_pat"
if [ "$r_base" = 0 ] && [ "$r_test" = 0 ] && [ "$r_pat" != 0 ]; then
  D=/verif/seeded/$ID; mkdir -p $D
  cp $OUT/patch_$N.diff $D/patch.diff; cp $OUT/demo_$N.rs $D/demo.rs
  python3 - "$OUT/meta_$N.json" "$D/meta.json" "$r_base" "$r_test" "$npass" "$r_pat" "$(tail -5 $W/pat.log | tr '\n' ' ' | cut -c1-600)" <<'PY'
import json,sys
src,dst,rb,rt,npass,rp,tail=sys.argv[1:8]
try: m=json.load(open(src))
except Exception as e: m={"property":"?","summary":"(agent meta unreadable: %s)"%e}
m["confirmed_by_verif"]={"ran":"tools/verify_seed.sh in a fresh scratch worktree of /repo HEAD: demo on unchanged tree; git apply patch; cargo test --workspace --no-fail-fast --offline; demo again",
  "demo_unchanged_rc":int(rb),"tests_with_patch_rc":int(rt),"unit_tests_passed_with_patch":npass,"demo_with_patch_rc":int(rp),"demo_with_patch_stderr_tail":tail}
json.dump(m,open(dst,"w"),indent=1)
PY
  echo "$ID: KEPT"
else
  echo "$ID: REJECTED"; tail -5 $W/base.log $W/test.log $W/pat.log 2>/dev/null | cut -c1-300
fi
[ -n "${KEEP_W:-}" ] || { cd /; git -C /repo worktree remove --force $W; }
