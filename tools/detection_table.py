#!/usr/bin/env python3
"""Builds seeded/DETECTION.md from seeded/*/meta.json and detection.json"""
import json, os, glob
V = os.path.dirname(os.path.dirname(os.path.abspath(__file__)))
rows = []
for d in sorted(glob.glob(os.path.join(V, "seeded", "*"))):
    if not os.path.isdir(d):
        continue
    sid = os.path.basename(d)
    meta = json.load(open(os.path.join(d, "meta.json"))) if os.path.exists(os.path.join(d, "meta.json")) else {}
    det = json.load(open(os.path.join(d, "detection.json"))) if os.path.exists(os.path.join(d, "detection.json")) else {}
    prop = meta.get("property", "?")
    cells = []
    for p, r in sorted(det.items()):
        ob = ""
        for l in r.get("lines", []):
            if "failed obligation" in l:
                ob = l.split("failed obligation:")[1].strip().split(":")[0][:90]
                break
        verdict = {0: "missed (exit 0)", 1: "VIOLATION", 2: "undecided (exit 2)"}.get(r.get("exit"), "?")
        cells.append("%s: %s%s" % (p, verdict, (" — " + ob) if ob else ""))
    rows.append((sid, prop, (meta.get("summary", "") or "")[:150].replace("|", "/"), "; ".join(cells)))
with open(os.path.join(V, "seeded", "DETECTION.md"), "w") as f:
    f.write("# Seeded changes and the checks' answers\n\n| seeded change | breaks | what it does | check result (first failed obligation) |\n|---|---|---|---|\n")
    for r in rows:
        f.write("| %s | %s | %s | %s |\n" % r)
print("rows", len(rows))
